//go:build verif

// Contracts for package fix, read by /verif/engine (govc). Comment-only: with
// or without the build tag this file contributes no executable code.
package fix

//@ global[C01,C02,C03,C11,C17,C18] Delimiter = bytes(SOH)

//@ spec firstAnchored(d string, t string) int = ite(hasPrefix(d, cat(t, "=")), 0, ite(idx(d, cat(SOH, t, "=")) < 0, -1, idx(d, cat(SOH, t, "=")) + 1))
//@ spec anchored(d string, i int, t string) bool = (i == 0 || code(d, i-1) == 1) && sub(d, i, i+len(t)+1) == cat(t, "=")
//@ spec valueAt(d string, j int) string = ite(idx(from(d, j), SOH) < 0, from(d, j), sub(from(d, j), 0, idx(from(d, j), SOH)))

//@ spec hasField(d string, t string) bool = len(d) > len(t) && (idx(d, cat(SOH, t, "=")) >= 0 || hasPrefix(d, cat(t, "=")))
//@ spec fieldVal(d string, t string) string = valueAt(d, ite(idx(d, cat(SOH, t, "=")) >= 0, idx(d, cat(SOH, t, "=")) + 1, 0) + len(t) + 1)
//@ func ValueByTag(msg []byte, tag string) (res []byte, err error)
//@   safety[C11]
//@   ensures[C16,C19] @found (err == nil) == hasField(string(msg), tag)
//@   ensures[C16,C19] @fieldval imp(err == nil, string(res) == fieldVal(string(msg), tag))
//@   witness k = ite(idx(string(msg), cat(SOH, tag, "=")) >= 0, idx(string(msg), cat(SOH, tag, "=")) + 1, 0)
//@   ensures[C18] @anchored imp(err == nil, anchored(string(msg), k, tag))
//@   ensures[C18,C16] @value imp(err == nil, string(res) == valueAt(string(msg), k + len(tag) + 1))

// ---- template well-formedness (precondition of the decoder, C11) -------------
// wfItem/wfSeq are properties of the immutable template structure (which
// Value object a KeyValue holds, which items a Component or Group template
// lists). The decoder never writes those fields of pre-existing objects (frame
// obligations of unmarshal/scanKeyValue), so the predicates are heap-independent.
//@ spec wfItem(x ref) bool
//@   unfold wf_item(x Item): imp(wfItem(x), x != nil && imp(istype(x, *KeyValue), x.(*KeyValue).Value != nil) && imp(istype(x, *Group), wfSeq(x.(*Group).template)) && imp(istype(x, *Component), wfSeq(x.(*Component).items)))
//@   unfold wf_kv_intro(x Item): imp(istype(x, *KeyValue) && x.(*KeyValue).Value != nil, wfItem(x))
//@ spec wfSeq(s ref) bool
//@   unfold wf_seq_at(s []Item, i int): requires 0 <= i && i < len(s) ensures imp(wfSeq(s), wfItem(s[i]))
//@   unfold wf_seq_3(s []Item): imp(len(s) == 3 && wfItem(s[0]) && wfItem(s[1]) && wfItem(s[2]), wfSeq(s))

//@ interface Value
//@   method FromBytes(d []byte) (err error):
//@     safety[C11]
//@     modifies self.*
//@     ensures[C02,C03] imp(istype(self, *Raw), err == nil && self.(*Raw).value == d)
//@     ensures[C02,C14,C16,C10,C06] @decoded imp(!isnil(d), fbPost(self, d, err))
//@     ensures[C02] @null imp(isnil(d) && !istype(self, *Raw), nullV(self) && err == nil)
//@     reveal nullV
//@   method Value() (res interface{}):
//@     safety[C11]
//@     pure
//@     ensures[C11] imp(istype(self, *Int), istype(res, int))
//@   method Set(d interface{}) (err error):
//@     modifies self.*
//@     ensures[C01,C17] imp(istype(self, *String) && istype(d, string), err == nil && self.(*String).valid && self.(*String).value == unbox_string(d))
//@     ensures[C17] imp(istype(self, *Int) && istype(d, int), err == nil && self.(*Int).valid && self.(*Int).value == unbox_int(d))
//@     ensures[C17] imp(istype(self, *Uint) && istype(d, uint64), err == nil && self.(*Uint).valid && self.(*Uint).value == unbox_int(d))
//@     ensures[C17,C02] imp(istype(self, *Float) && istype(d, float64), err == nil && self.(*Float).valid && self.(*Float).value == unbox_int(d))
//@     ensures[C17,C02] @canonical imp(istype(self, *Float) && istype(d, float64), wireV(self) == bytes(ffmt(unbox_int(d))))
//@     ensures[C17] imp(istype(self, *Time) && istype(d, time.Time), err == nil && self.(*Time).valid && self.(*Time).value == unbox_int(d))
//@     ensures[C17] imp(istype(self, *Bool) && istype(d, bool), err == nil && self.(*Bool).valid && self.(*Bool).value == unbox_bool(d))
//@     ensures[C17] imp(istype(self, *Raw) && istype(d, []byte), err == nil && self.(*Raw).value == unbox_bytes(d))
//@     ensures[C17] imp(d == nil && !istype(self, *Raw), nullV(self))
//@     reveal nullV
//@     reveal wireV
//@   method IsNull() (res bool):
//@     safety[C11]
//@     pure
//@     ensures[C17,C01] res == nullV(self)
//@     reveal nullV
//@   method ToBytes() (res []byte):
//@     safety[C11]
//@     pure
//@     ensures[C17,C01,C02] res == wireV(self)
//@     reveal wireV

//@ lemma[C01,C17] wireV_int(v Value): requires istype(v, *Int) ensures wireV(v) == ite(!v.(*Int).valid, nilbytes, bytes(dec(v.(*Int).value))) && nullV(v) == !v.(*Int).valid
//@   reveal wireV, nullV
//@ lemma[C01,C17] wireV_string(v Value): requires istype(v, *String) ensures wireV(v) == ite(!v.(*String).valid || v.(*String).value == "", nilbytes, bytes(v.(*String).value)) && nullV(v) == !v.(*String).valid
//@   reveal wireV, nullV

// ---- decoding of one value (C02a): what FromBytes leaves behind, per dynamic type ---
//@ spec decBool(d string) bool = d == "Y"
//@ spec intRange(d string) bool = isint(d) && atoi(d) < 9223372036854775808 && atoi(d) >= -9223372036854775808
//@ spec uintRange(d string) bool = isdigits(d) && atoi(d) < 18446744073709551616
//@ spec fbPost(v Value, d bytes, err error) bool =
//@   imp(istype(v, *String), err == nil && v.(*String).valid && v.(*String).value == string(d)) &&
//@   imp(istype(v, *Int), v.(*Int).valid && (err == nil) == intRange(string(d)) && imp(err == nil, v.(*Int).value == atoi(string(d)))) &&
//@   imp(istype(v, *Uint), v.(*Uint).valid && (err == nil) == uintRange(string(d)) && imp(err == nil, v.(*Uint).value == atoi(string(d)))) &&
//@   imp(istype(v, *Float), v.(*Float).valid && v.(*Float).source == d && (err == nil) == pfloatok(string(d)) && v.(*Float).value == pfloat(string(d))) &&
//@   imp(istype(v, *Time), v.(*Time).valid && (err == nil) == ptimeok(TimeLayout, string(d)) && v.(*Time).value == ptime(TimeLayout, string(d))) &&
//@   imp(istype(v, *Bool), err == nil && v.(*Bool).valid && v.(*Bool).value == decBool(string(d))) &&
//@   imp(istype(v, *Raw), err == nil && v.(*Raw).value == d)

// round trips of the text codecs (C02a): decoding the canonical text gives the value back
//@ lemma[C02] rt_int(n int): requires n < 9223372036854775808 && n >= -9223372036854775808 ensures intRange(dec(n)) && atoi(dec(n)) == n
//@ lemma[C02] rt_uint(n int): requires 0 <= n && n < 18446744073709551616 ensures uintRange(dec(n)) && atoi(dec(n)) == n
//@ lemma[C02] rt_bool(b bool): decBool(ite(b, "Y", "N")) == b
//@ axiom rt_float(f int): pfloatok(ffmt(f)) && pfloat(ffmt(f)) == f
//@ axiom rt_time(t int): ptimeok(TimeLayout, tfmt(t, TimeLayout)) && ptime(TimeLayout, tfmt(t, TimeLayout)) == t

// ---- items (C17, C01) ---------------------------------------------------------------
//@ spec wireKV(kv *KeyValue) bytes =
//@   ite(kv == nil || kv.Value == nil || nullV(kv.Value) || isnil(wireV(kv.Value)), nilbytes, bytes(cat(kv.Key, "=", wireV(kv.Value))))

//@ func (kv *KeyValue) ToBytes() (res []byte)
//@   safety[C11]
//@   pure
//@   ensures[C17,C01] res == wireKV(kv)

//@ func (g *Group) AsTemplate() (res Items)
//@   requires g != nil
//@   forall j int
//@   ensures[C02] @fresh fresh(res) && len(res) == len(g.template)
//@   ensures[C02] @elems imp(0 <= j && j < len(res), (res[j] == nil || fresh(res[j])) && typeof(res[j]) == typeof(g.template[j]) || !isItemType(g.template[j]))
//@   assumes imp(wfSeq(g.template), wfSeq(res))
//@   loop 1:
//@     invariant[C02] 0 <= iter && iter <= len(g.template) && len(tmp) == len(g.template) && fresh(tmp)
//@     invariant[C02] imp(0 <= j && j < iter, (tmp[j] == nil || fresh(tmp[j])) && typeof(tmp[j]) == typeof(g.template[j]) || !isItemType(g.template[j]))
//@     decreases len(g.template) - iter

//@ func (c *Component) AsTemplate() (res Items)
//@   requires c != nil
//@   forall j int
//@   ensures[C02] @fresh fresh(res) && len(res) == len(c.items)
//@   ensures[C02] @elems imp(0 <= j && j < len(res), (res[j] == nil || fresh(res[j])) && typeof(res[j]) == typeof(c.items[j]) || !isItemType(c.items[j]))
//@   assumes imp(wfSeq(c.items), wfSeq(res))
//@   loop 1:
//@     invariant[C02] 0 <= iter && iter <= len(c.items) && len(tmp) == len(c.items) && fresh(tmp)
//@     invariant[C02] imp(0 <= j && j < iter, (tmp[j] == nil || fresh(tmp[j])) && typeof(tmp[j]) == typeof(c.items[j]) || !isItemType(c.items[j]))
//@     decreases len(c.items) - iter
//@ spec isItemType(x Item) bool = istype(x, *KeyValue) || istype(x, *Group) || istype(x, *Component)

//@ func (g *Group) AddEntry(v Items) (res *Group)
//@   safety[C11]
//@   requires g != nil
//@   modifies g.items
//@   forall j int
//@   ensures res == g
//@   ensures[C17,C02] @appended len(g.items) == old(len(g.items)) + 1 && nth(g.items, old(len(g.items))) == v
//@   ensures[C17,C02] @kept imp(0 <= j && j < old(len(g.items)), nth(g.items, j) == old(nth(g.items, j)))

// Entries hands out the group's own entries: replacing an item of a returned entry
// (as the generated entry setters do) changes the group
//@ func (g *Group) Entries() (res []Items)
//@   safety[C11]
//@   requires g != nil
//@   pure
//@   forall j int
//@   ensures[C17,C02] @own len(res) == len(g.items) && imp(0 <= j && j < len(res), nth(res, j) == nth(g.items, j))

// NewMessage establishes the framing part of msgWF: four distinct key-values with the given
// tags, BeginString and MsgType populated with the given texts, CheckSum a String
//@ func NewMessage(beginStringTag string, bodyLengthTag string, checkSumTag string, msgTypeTag string, beginString string, msgType string) (res *Message)
//@   ensures[C01,C17] @framing res != nil && fresh(res) && res.beginString != nil && res.bodyLength != nil && res.msgType != nil && res.checkSum != nil && res.bodyLength != res.beginString && res.bodyLength != res.msgType && res.checkSum != res.beginString && res.checkSum != res.msgType && res.checkSum != res.bodyLength
//@   ensures[C01,C17] @tags res.beginString.Key == beginStringTag && res.bodyLength.Key == bodyLengthTag && res.msgType.Key == msgTypeTag && res.checkSum.Key == checkSumTag
//@   ensures[C01,C17] @values res.checkSum.Value != nil && istype(res.checkSum.Value, *String) && istype(res.beginString.Value, *String) && istype(res.msgType.Value, *String) && res.beginString.Value.(*String).value == beginString && res.beginString.Value.(*String).valid && res.msgType.Value.(*String).value == msgType && res.msgType.Value.(*String).valid
//@   ensures[C01,C17] @distinctvalues res.checkSum.Value != res.beginString.Value && res.checkSum.Value != res.msgType.Value
//@ func (kv *KeyValue) Load() (res Value)
//@   safety[C11]
//@   requires kv != nil
//@   pure
//@   ensures[C17,C02] res == kv.Value
//@ func (kv *KeyValue) Set(value Value)
//@   requires kv != nil
//@   modifies kv.Value
//@   ensures[C17,C02] kv.Value == value

// ---- accessors the generated setters and getters are built from (C17, C02) ------------
//@ func (c *Component) Set(id int, v Item)
//@   requires c != nil && 0 <= id && id < len(c.items)
//@   modifies SEQ
//@   forall j int
//@   ensures[C17,C02] @placed len(c.items) == old(len(c.items)) && nth(c.items, id) == v
//@   ensures[C17,C02] @others imp(0 <= j && j < len(c.items) && j != id, nth(c.items, j) == old(nth(c.items, j)))
//@ func (c *Component) SetField(id int, v Item)
//@   requires c != nil && 0 <= id && id < len(c.items)
//@   modifies SEQ
//@   forall j int
//@   ensures[C17,C02] @placed len(c.items) == old(len(c.items)) && nth(c.items, id) == v
//@   ensures[C17,C02] @others imp(0 <= j && j < len(c.items) && j != id, nth(c.items, j) == old(nth(c.items, j)))
//@ func (c *Component) SetGroup(id int, v *Group)
//@   requires c != nil && 0 <= id && id < len(c.items)
//@   modifies SEQ
//@   forall j int
//@   ensures[C17,C02] @placed len(c.items) == old(len(c.items)) && nth(c.items, id) == v
//@   ensures[C17,C02] @others imp(0 <= j && j < len(c.items) && j != id, nth(c.items, j) == old(nth(c.items, j)))
//@ func (c *Component) SetComponent(id int, v *Component)
//@   requires c != nil && 0 <= id && id < len(c.items)
//@   modifies SEQ
//@   forall j int
//@   ensures[C17,C02] @placed len(c.items) == old(len(c.items)) && nth(c.items, id) == v
//@   ensures[C17,C02] @others imp(0 <= j && j < len(c.items) && j != id, nth(c.items, j) == old(nth(c.items, j)))
//@ func (c *Component) Get(id int) (res Item)
//@   requires c != nil && 0 <= id && id < len(c.items)
//@   pure
//@   ensures[C17,C02] res == nth(c.items, id)
//@ func (c *Component) Items() (res Items)
//@   safety[C11]
//@   requires c != nil
//@   pure
//@   ensures[C17,C02] res == c.items
//@ func (c *Component) AsComponent() (res *Component)
//@   pure
//@   ensures[C17,C02] res == c
//@ func NewComponent(items ...Item) (res *Component)
//@   ensures[C17,C02] res != nil && fresh(res) && res.items == items
//@ func (msg *Message) Get(id int) (res Item)
//@   requires msg != nil && 0 <= id && id < len(msg.body)
//@   pure
//@   ensures[C17,C02] res == nth(msg.body, id)
//@ func (msg *Message) Set(id int, item Item) (res *Message)
//@   requires msg != nil && 0 <= id && id < len(msg.body)
//@   modifies SEQ
//@   forall j int
//@   ensures[C17,C02] @placed res == msg && len(msg.body) == old(len(msg.body)) && nth(msg.body, id) == item
//@   ensures[C17,C02] @others imp(0 <= j && j < len(msg.body) && j != id, nth(msg.body, j) == old(nth(msg.body, j)))
//@ func (msg *Message) SetHeader(header *Component) (res *Message)
//@   requires msg != nil
//@   modifies msg.header
//@   ensures[C17,C02] res == msg && msg.header == header
//@ func (msg *Message) SetBody(body ...Item) (res *Message)
//@   requires msg != nil
//@   modifies msg.body
//@   ensures[C17,C02] res == msg && msg.body == body
//@ func (msg *Message) SetTrailer(trailer *Component) (res *Message)
//@   requires msg != nil
//@   modifies msg.trailer
//@   ensures[C17,C02] res == msg && msg.trailer == trailer
//@ func (msg *Message) Body() (kvs Items)
//@   requires msg != nil
//@   pure
//@   ensures[C17,C02] kvs == msg.body
//@ func (msg *Message) Header() (res *Component)
//@   requires msg != nil
//@   pure
//@   ensures[C17,C02] res == msg.header
//@ func (msg *Message) Trailer() (res *Component)
//@   requires msg != nil
//@   pure
//@   ensures[C17,C02] res == msg.trailer

// ---- checksum (C01, C03) ---------------------------------------------------------
//@ spec bsum(s string) int
//@   unfold bsum_empty(): bsum("") == 0
//@   unfold bsum_snoc(s string, i int): requires 0 <= i && i < len(s) ensures bsum(sub(s, 0, i+1)) == bsum(sub(s, 0, i)) + code(s, i)
//@   unfold bsum_cat(a string, b string): bsum(cat(a, b)) == bsum(a) + bsum(b)
//@   unfold bsum_nonneg(s string): bsum(s) >= 0
//@ lemma[C01] bsum_cong(a string, b string): requires a == b ensures bsum(a) == bsum(b)
//@ spec pad3(s string) string = ite(len(s) == 0, cat("000", s), ite(len(s) == 1, cat("00", s), ite(len(s) == 2, cat("0", s), s)))
//@ spec digits3(v int) string = cat(chr(48 + v/100), chr(48 + (v/10)%10), chr(48 + v%10))
//@ lemma[C01,C03] pad3_dec(v int): requires 0 <= v && v < 256 ensures pad3(dec(v)) == digits3(v)

//@ func CalcCheckSum(body []byte) (res []byte)
//@   safety[C11]
//@   terminates[C11]
//@   ensures[C01,C03] @value !isnil(res) && string(res) == digits3((bsum(string(body)) + 1) % 256)
//@   lemma pad3_dec((bsum(string(body)) + 1) % 256); bsum_nonneg(string(body))
//@   loop 1:
//@     invariant[C01,C03] 0 <= iter && iter <= len(body) && sum == bsum(sub(string(body), 0, iter))
//@     decreases len(body) - iter
//@     lemma bsum_snoc(string(body), iter); bsum_empty(); bsum_nonneg(sub(string(body), 0, iter))

// ---- value types (C17, C02) ---------------------------------------------------------
//@ spec wireVother(v ref) bytes
//@ spec nullVother(v ref) bool
//@ spec opaque wireV(v Value) bytes =
//@   ite(istype(v, *String), ite(!v.(*String).valid || v.(*String).value == "", nilbytes, bytes(v.(*String).value)),
//@   ite(istype(v, *Int), ite(!v.(*Int).valid, nilbytes, bytes(dec(v.(*Int).value))),
//@   ite(istype(v, *Uint), ite(!v.(*Uint).valid, nilbytes, bytes(dec(v.(*Uint).value))),
//@   ite(istype(v, *Float), ite(!v.(*Float).valid, nilbytes, ite(!isnil(v.(*Float).source), v.(*Float).source, bytes(ffmt(v.(*Float).value)))),
//@   ite(istype(v, *Time), ite(!v.(*Time).valid, nilbytes, bytes(tfmt(v.(*Time).value, TimeLayout))),
//@   ite(istype(v, *Bool), ite(!v.(*Bool).valid, nilbytes, bytes(ite(v.(*Bool).value, "Y", "N"))),
//@   ite(istype(v, *Raw), v.(*Raw).value, wireVother(v))))))))
//@ spec opaque nullV(v Value) bool =
//@   ite(istype(v, *String), !v.(*String).valid,
//@   ite(istype(v, *Int), !v.(*Int).valid,
//@   ite(istype(v, *Uint), !v.(*Uint).valid,
//@   ite(istype(v, *Float), !v.(*Float).valid,
//@   ite(istype(v, *Time), !v.(*Time).valid,
//@   ite(istype(v, *Bool), !v.(*Bool).valid,
//@   ite(istype(v, *Raw), isnil(v.(*Raw).value), nullVother(v))))))))

// bytes.Join over a sequence whose elements are not statically known (trusted schemata, DESIGN 8.8)
//@ axiom join_empty(s seqstr, sep string): requires seqlen(s) == 0 ensures join(s, sep) == ""
//@ axiom join_snoc(s seqstr, x string, sep string): join(snoc(s, x), sep) == ite(seqlen(s) == 0, x, cat(join(s, sep), sep, x))

// wire image of an item tree: recursive over the heap, unfolded explicitly
//@ spec wireItemOther(x ref) bytes heap
//@ spec wireItem(x Item) bytes heap
//@   reads KeyValue.*, Component.*, Group.*, Value.*, SEQ_Int
//@   unfold wire_item(x Item): wireItem(x) == ite(istype(x, *KeyValue), wireKV(x.(*KeyValue)), ite(istype(x, *Component), wireComp(x.(*Component)), ite(istype(x, *Group), wireGroup(x.(*Group)), wireItemOther(x))))
//@ spec wcnt(xs []Item, n int) int heap
//@ spec wjoin(xs []Item, n int) string heap
//@   unfold witems_zero(xs []Item): wcnt(xs, 0) == 0 && wjoin(xs, 0) == ""
//@   unfold witems_step(xs []Item, n int): requires 0 <= n && n < len(xs)
//@       ensures wcnt(xs, n+1) == wcnt(xs, n) + ite(isnil(wireItem(xs[n])), 0, 1)
//@            && wjoin(xs, n+1) == ite(isnil(wireItem(xs[n])), wjoin(xs, n), ite(wcnt(xs, n) == 0, string(wireItem(xs[n])), cat(wjoin(xs, n), SOH, wireItem(xs[n]))))
//@ spec wireItemsB(xs []Item) bytes = bytes(wjoin(xs, len(xs)))
//@ spec wireComp(c *Component) bytes = ite(wcnt(c.items, len(c.items)) == 0, nilbytes, bytes(wjoin(c.items, len(c.items))))
//@ spec gcnt(es []Items, n int) int heap
//@ spec gjoin(es []Items, n int) string heap
//@   unfold gitems_zero(es []Items): gcnt(es, 0) == 0 && gjoin(es, 0) == ""
//@   unfold gitems_step(es []Items, n int): requires 0 <= n && n < len(es)
//@       ensures gcnt(es, n+1) == gcnt(es, n) + ite(wjoin(es[n], len(es[n])) == "", 0, 1)
//@            && gjoin(es, n+1) == ite(wjoin(es[n], len(es[n])) == "", gjoin(es, n), ite(gcnt(es, n) == 0, wjoin(es[n], len(es[n])), cat(gjoin(es, n), SOH, wjoin(es[n], len(es[n])))))
//@ spec wireGroup(g *Group) bytes =
//@   ite(len(g.items) == 0, nilbytes, bytes(cat(g.noTag, "=", dec(len(g.items)), ite(gcnt(g.items, len(g.items)) == 0, "", cat(SOH, gjoin(g.items, len(g.items)))))))

//@ interface Item
//@   implementations *KeyValue, *Component, *Group
//@   method ToBytes() (res []byte):
//@     safety[C11]
//@     pure
//@     ensures[C17,C01] res == wireItem(self)
//@     lemma wire_item(self)

//@ func (v Items) ToBytes() (res []byte)
//@   pure
//@   ensures[C17,C01] res == wireItemsB(v)
//@   call append#1: lemma join_snoc(seqof(msg), string(itemB), SOH)
//@   loop 1:
//@     invariant[C17,C01] 0 <= iter && iter <= len(v) && seqlen(msg) == wcnt(v, iter) && join(seqof(msg), SOH) == wjoin(v, iter)
//@     decreases len(v) - iter
//@     lemma witems_zero(v); witems_step(v, iter); join_empty(seqof(msg), SOH)

//@ func (c *Component) ToBytes() (res []byte)
//@   pure
//@   requires c != nil
//@   ensures[C17,C01] res == wireComp(c)
//@   call append#1: lemma join_snoc(seqof(msg), string(itemB), SOH)
//@   loop 1:
//@     invariant[C17,C01] 0 <= iter && iter <= len(c.items) && seqlen(msg) == wcnt(c.items, iter) && join(seqof(msg), SOH) == wjoin(c.items, iter)
//@     decreases len(c.items) - iter
//@     lemma witems_zero(c.items); witems_step(c.items, iter); join_empty(seqof(msg), SOH)

//@ func (g *Group) ToBytes() (res []byte)
//@   pure
//@   reveal wireV, nullV
//@   requires g != nil
//@   ensures[C17,C01] @wire imp(gcnt(g.items, len(g.items)) == len(g.items), res == wireGroup(g))
//@   ensures[C17] @noempty res == wireGroup(g)
//@   call append#2: lemma join_snoc(seqof(msg), string(itemB), SOH)
//@   loop 1:
//@     invariant[C17,C01] 0 <= iter && iter <= len(g.items) && gcnt(g.items, iter) <= iter && seqlen(msg) == iter + 1
//@     invariant[C17,C01] imp(gcnt(g.items, iter) == iter, join(seqof(msg), SOH) == cat(g.noTag, "=", dec(len(g.items)), ite(iter == 0, "", cat(SOH, gjoin(g.items, iter)))))
//@     decreases len(g.items) - iter
//@     lemma gitems_zero(g.items); gitems_step(g.items, iter); join_snoc(emptystrs, nths(seqof(msg), 0), SOH); join_empty(emptystrs, SOH)

// ---- message framing (C01) and field order (C17) ----------------------------------
//@ field Message.bodyLength: owned
//@ field Message.checkSum: owned
//@ field KeyValue.Value: inherits

//@ spec optLen(b bytes) int = ite(len(b) > 0, len(b) + 1, 0)
//@ spec optL(b bytes) string = ite(len(b) > 0, cat(SOH, b), "")
//@ spec wireCompN(c *Component) bytes = ite(c == nil, nilbytes, wireComp(c))
//@ spec msgHead(msg *Message) string = cat(wireKV(msg.beginString), SOH, wireKV(msg.bodyLength), SOH, wireKV(msg.msgType))
//@ spec msgTail(msg *Message) string = cat(optL(wireComp(msg.header)), optL(wireItemsB(msg.body)))
//@ spec msgWF(msg *Message) bool = msg != nil && msg.header != nil && msg.beginString != nil && msg.bodyLength != nil && msg.msgType != nil && msg.checkSum != nil
//@   && msg.bodyLength != msg.beginString && msg.bodyLength != msg.msgType && msg.checkSum != msg.beginString && msg.checkSum != msg.msgType && msg.checkSum != msg.bodyLength
//@   && msg.checkSum.Value != nil && istype(msg.checkSum.Value, *String) && msg.checkSum.Value != msg.beginString.Value && msg.checkSum.Value != msg.msgType.Value

//@ func (msg *Message) CalcBodyLength() (n int)
//@   pure
//@   requires msg != nil && msg.header != nil
//@   ensures[C01] n == optLen(wireKV(msg.msgType)) + optLen(wireComp(msg.header)) + optLen(wireItemsB(msg.body))

//@ func (msg *Message) BytesWithoutChecksum() (res []byte)
//@   pure
//@   requires msg != nil && msg.header != nil
//@   witness T = from(string(res), len(msgHead(msg)))
//@   ensures[C01] @decomp !isnil(res) && string(res) == cat(msgHead(msg), T)
//@   ensures[C01] @taillen len(T) == optLen(wireComp(msg.header)) + optLen(wireItemsB(msg.body))
//@   ensures[C01] @tailsep T == "" || code(T, 0) == 1
//@   ensures[C17] @order string(res) == cat(msgHead(msg), optL(wireComp(msg.header)), optL(wireItemsB(msg.body)))
//@   ensures[C17] @trailer string(res) == cat(msgHead(msg), optL(wireComp(msg.header)), optL(wireItemsB(msg.body)), optL(wireCompN(msg.trailer)))

//@ func (msg *Message) Prepare() (err error)
//@   handover[C01,C04,C05,C10,C17,C19]
//@   requires msgWF(msg)
//@   requires[C01] len(wireKV(msg.msgType)) > 0 && len(wireKV(msg.beginString)) > 0
//@   modifies msg.prepared, msg.bodyLength.Value, msg.checkSum.Value.*
//@   call BytesWithoutChecksum#1:
//@     witness headAtCall = msgHead(msg)
//@   call Set#1:
//@     assert[C01] @head msgHead(msg) == headAtCall
//@   witness T = from(string(byteMsg), len(msgHead(msg)))
//@   witness c = msg.checkSum.Value.(*String).value
//@   ensures[C01] @noerr err == nil
//@   ensures[C01] @layout string(msg.prepared) == cat(msgHead(msg), T, SOH, msg.checkSum.Key, "=", c, SOH)
//@   ensures[C01] @bodylen wireKV(msg.bodyLength) == bytes(cat(msg.bodyLength.Key, "=", dec(len(cat(wireKV(msg.msgType), T, SOH)))))
//@   ensures[C01] @checksum c == digits3(bsum(cat(msgHead(msg), T, SOH)) % 256)
//@   ensures[C01] @tail len(T) == optLen(wireComp(msg.header)) + optLen(wireItemsB(msg.body)) && (T == "" || code(T, 0) == 1)
//@   ensures[C01,C17] @full string(msg.prepared) == cat(msgHead(msg), msgTail(msg), SOH, msg.checkSum.Key, "=", msg.checkSum.Value.(*String).value, SOH)
//@   ensures[C01] @fullbodylen wireKV(msg.bodyLength) == bytes(cat(msg.bodyLength.Key, "=", dec(len(cat(wireKV(msg.msgType), msgTail(msg), SOH)))))
//@   ensures[C01] @teq T == msgTail(msg)
//@   ensures[C01] @ceq c == msg.checkSum.Value.(*String).value
//@   ensures[C01] @fullchecksum msg.checkSum.Value.(*String).value == digits3(bsum(cat(msgHead(msg), msgTail(msg), SOH)) % 256)
//@   lemma bsum_cat(cat(msgHead(msg), T), SOH); bsum_cong(cat(msgHead(msg), T, SOH), cat(msgHead(msg), msgTail(msg), SOH)); bsum_snoc(SOH, 0); bsum_empty(); wireV_int(msg.bodyLength.Value); wireV_string(msg.checkSum.Value)

// ToBytes: the same image, handed to the caller (stated over the message's state, so that a
// caller - and a ToBytes that skipped Prepare - is held to it)
//@ func (msg *Message) ToBytes() (res []byte, err error)
//@   requires msgWF(msg)
//@   requires[C01] len(wireKV(msg.msgType)) > 0 && len(wireKV(msg.beginString)) > 0
//@   modifies msg.prepared, msg.bodyLength.Value, msg.checkSum.Value.*
//@   ensures[C01,C17] @noerr err == nil
//@   ensures[C01,C17] @image string(res) == cat(msgHead(msg), msgTail(msg), SOH, msg.checkSum.Key, "=", msg.checkSum.Value.(*String).value, SOH)
//@   ensures[C01] @bodylen wireKV(msg.bodyLength) == bytes(cat(msg.bodyLength.Key, "=", dec(len(cat(wireKV(msg.msgType), msgTail(msg), SOH)))))
//@   ensures[C01] @checksum msg.checkSum.Value.(*String).value == digits3(bsum(cat(msgHead(msg), msgTail(msg), SOH)) % 256)

// ---- value constructors and setters populate a value (C17) -------------------------
//@ func NewString(v string) (res *String)
//@   ensures[C17] res != nil && res.valid && res.value == v
//@ func NewInt(value int) (res *Int)
//@   safety[C11]
//@   ensures[C17] res != nil && res.valid && res.value == value
//@ func NewUint(value uint64) (res *Uint)
//@   ensures[C17] res != nil && res.valid && res.value == value
//@ func NewFloat(value float64) (res *Float)
//@   ensures[C17] res != nil && res.valid && res.value == value && isnil(res.source)
//@ func NewTime(value time.Time) (res *Time)
//@   ensures[C17] res != nil && res.valid && res.value == value
//@ func NewRaw(v []byte) (res *Raw)
//@   safety[C11]
//@   ensures[C17] res != nil && res.value == v
//@ func NewKeyValue(key string, value Value) (res *KeyValue)
//@   safety[C11]
//@   inline

//@ lemma[C03,C02] wireV_raw(v Value): requires istype(v, *Raw) ensures wireV(v) == v.(*Raw).value && nullV(v) == isnil(v.(*Raw).value)
//@   reveal wireV, nullV

// ---- template copies (C02b) -----------------------------------------------------------
//@ func (kv *KeyValue) AsTemplate() (res *KeyValue)
//@   safety[C11]
//@   requires kv != nil
//@   ensures[C02] @fresh fresh(res) && res.Key == kv.Key && res.Value != nil && res.Value != kv.Value
//@   ensures[C02] @sametype typeof(res.Value) == typeof(kv.Value) || !isLibValue(kv.Value)
//@   ensures[C02] @null imp(isLibValue(kv.Value), nullV(res.Value))
//@   ensures[C11] wfItem(res)
//@   lemma wf_kv_intro(res)
//@   reveal nullV
//@ spec isLibValue(v Value) bool = istype(v, *String) || istype(v, *Int) || istype(v, *Uint) || istype(v, *Float) || istype(v, *Time) || istype(v, *Bool) || istype(v, *Raw)
