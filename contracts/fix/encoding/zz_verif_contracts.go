//go:build verif

// Contracts for package encoding, read by /verif/engine (govc). Comment-only.
package encoding

//@ func (s *state) scanKeyValue(data []byte, el *fix.KeyValue) (err error)
//@   safety[C11]
//@   requires s != nil && el != nil && el.Value != nil
//@   modifies fix.Value.*
//@   witness k = firstAnchored(string(data), el.Key)
//@   ensures[C02,C14,C16,C10,C06,C18] @found imp(k >= 0, fbPost(el.Value, bytes(valueAt(string(data), k + len(el.Key) + 1)), err))
//@   ensures[C02,C18] @notfound imp(k < 0, err == nil)
//@   forall o ref
//@   ensures[C03] @rawclean imp(istype(o, *fix.Raw), o.(*fix.Raw).value == old(o.(*fix.Raw).value) || noSOH(o.(*fix.Raw).value))

//@ func splitGroup(line []byte, firstTag []byte) (array [][]byte)
//@   safety[C11]
//@   terminates[C11]
//@   requires len(line) >= 1 && len(firstTag) >= 1
//@   requires[C02,C18] @anchoredtag code(string(firstTag), 0) == 1 && hasSuffix(string(firstTag), "=")
//@   ensures[C11] len(array) >= 1
//@   call Index#1:
//@     assert[C02,C18] @splitpoint imp(ret >= 0, sub(string(line), ret + 1, ret + 1 + len(firstTag)) == string(firstTag))
//@   loop 1:
//@     invariant[C11] len(line) >= 1 && imp(!ok, len(array) >= 1)
//@     decreases ite(ok, len(line) + 1, 0)

//@ func (s *state) unmarshal(data []byte, fixItem fix.Item) (err error)
//@   safety[C11]
//@   terminates[C11]
//@   requires s != nil && wfItem(fixItem)
//@   unfold wf_item(fixItem)
//@   modifies fix.Value.*, fix.Group.items
//@   forall o ref
//@   ensures[C03] @rawclean imp(istype(o, *fix.Raw), o.(*fix.Raw).value == old(o.(*fix.Raw).value) || noSOH(o.(*fix.Raw).value))
//@   call unmarshal#1: lemma wf_kv_intro(noKv)
//@   call Index#2:
//@     assert[C02,C18] @groupstart anchored(string(data), startNoTag, noTag)
//@   loop 1:
//@     invariant[C11] 0 <= iter
//@     invariant[C03] imp(istype(o, *fix.Raw), o.(*fix.Raw).value == old(o.(*fix.Raw).value) || noSOH(o.(*fix.Raw).value))
//@     decreases cnt - iter
//@   loop 2:
//@     invariant[C11] 0 <= iter
//@     invariant[C03] imp(istype(o, *fix.Raw), o.(*fix.Raw).value == old(o.(*fix.Raw).value) || noSOH(o.(*fix.Raw).value))
//@     decreases len(entry) - iter
//@     lemma wf_seq_at(entry, iter); wf_item(entry[iter])
//@   loop 3:
//@     invariant[C11] 0 <= iter
//@     invariant[C03] imp(istype(o, *fix.Raw), o.(*fix.Raw).value == old(o.(*fix.Raw).value) || noSOH(o.(*fix.Raw).value))
//@     decreases len(component) - iter
//@     lemma wf_seq_at(component, iter); wf_item(component[iter])

//@ func unmarshalItems(msg fix.Items, data []byte, strict bool) (err error)
//@   safety[C11]
//@   terminates[C11]
//@   requires wfSeq(msg)
//@   modifies fix.Value.*, fix.Group.items
//@   forall o ref
//@   ensures[C03] @rawclean imp(istype(o, *fix.Raw), o.(*fix.Raw).value == old(o.(*fix.Raw).value) || noSOH(o.(*fix.Raw).value))
//@   loop 1:
//@     invariant[C11] 0 <= iter
//@     invariant[C03] imp(istype(o, *fix.Raw), o.(*fix.Raw).value == old(o.(*fix.Raw).value) || noSOH(o.(*fix.Raw).value))
//@     decreases len(msg) - iter
//@     lemma wf_seq_at(msg, iter)

//@ lemma[C03] fit_prefix_suffix(d string, a1 string, a2 string, b string): requires hasPrefix(d, cat(a1, SOH, a2, SOH)) && hasSuffix(d, cat(SOH, b, SOH)) && noSOH(a2) && noSOH(b) && len(b) > 0 && a2 != b ensures len(d) >= len(a1) + len(a2) + len(b) + 3
//@ lemma[C03] split3(d string, h string, t string): requires hasPrefix(d, h) && hasSuffix(d, t) && len(d) >= len(h) + len(t) ensures d == cat(h, sub(d, len(h), len(d) - len(t)), t)

// C03: validateRaw accepts only correctly framed byte strings. bs, bl, cs are
// the three KeyValues the function builds and scans; whatever values the scan
// found, acceptance implies that d decomposes exactly into them.
//@ func validateRaw(msg messages.Builder, d []byte, strict bool) (err error)
//@   safety[C11]
//@   requires msg != nil && tagBL(msg) != tagCS(msg)
//@   call unmarshalItems#1:
//@     lemma wf_kv_intro(bs); wf_kv_intro(bl); wf_kv_intro(cs); wf_seq_3(arg0)
//@     inst o = bs.Value
//@     inst o = bl.Value
//@     inst o = cs.Value
//@     after lemma wireV_raw(bs.Value); wireV_raw(bl.Value); wireV_raw(cs.Value)
//@     assert[C03] @cleanbl noSOH(string(wireKV(bl)))
//@     assert[C03] @cleancs noSOH(string(wireKV(cs)))
//@     assert[C03] @distinct imp(!isnil(wireKV(bl)) && !isnil(wireKV(cs)), string(wireKV(bl)) != string(wireKV(cs)))
//@   call CalcCheckSum#1:
//@     after lemma fit_prefix_suffix(string(d), string(wireKV(bs)), string(wireKV(bl)), string(wireKV(cs))); bsum_snoc(string(d), len(d) - len(wireKV(cs)) - 2)
//@     assert[C03] @arg string(arg0) == sub(string(d), 0, len(d) - len(wireKV(cs)) - 2)
//@     assert[C03] @sohpos len(d) - len(wireKV(cs)) - 2 >= 0 && code(string(d), len(d) - len(wireKV(cs)) - 2) == 1
//@     assert[C03] @sum bsum(sub(string(d), 0, len(d) - len(wireKV(cs)) - 1)) == bsum(string(arg0)) + 1
//@   witness pos = len(d) - len(wireKV(cs)) - 1
//@   witness R = sub(string(d), len(wireKV(bs)) + len(wireKV(bl)) + 2, pos)
//@   witness L = from(string(wireKV(bl)), len(bl.Key) + 1)
//@   ensures[C03] @framed imp(err == nil, string(d) == cat(wireKV(bs), SOH, wireKV(bl), SOH, R, wireKV(cs), SOH))
//@   ensures[C03] @fields imp(err == nil, hasPrefix(string(wireKV(bs)), cat(tagBS(msg), "=")) && hasPrefix(string(wireKV(bl)), cat(tagBL(msg), "=")) && hasPrefix(string(wireKV(cs)), cat(tagCS(msg), "=")))
//@   ensures[C03] @beginstring imp(err == nil && mBeginKV(msg) != nil && mBeginKV(msg).Value != nil && !nullV(mBeginKV(msg).Value), string(wireV(bs.Value)) == string(wireV(mBeginKV(msg).Value)))
//@   ensures[C03] @length imp(err == nil, isint(L) && atoi(L) == len(R))
//@   ensures[C03] @checksum imp(err == nil, from(string(wireKV(cs)), len(cs.Key) + 1) == digits3(bsum(sub(string(d), 0, pos)) % 256))
//@   lemma wireV_raw(bs.Value); wireV_raw(bl.Value); wireV_raw(cs.Value); bsum_snoc(string(d), pos - 1); bsum_nonneg(sub(string(d), 0, pos - 1))
//@   lemma fit_prefix_suffix(string(d), string(wireKV(bs)), string(wireKV(bl)), string(wireKV(cs))); split3(string(d), cat(wireKV(bs), SOH, wireKV(bl), SOH), cat(wireKV(cs), SOH))

// The public entry points accept only what validateRaw accepted, for the same
// message object and the same bytes (C03 is decided by validateRaw's contract).
//@ func (u DefaultUnmarshaller) Unmarshal(msg messages.Builder, d []byte) (err error)
//@   safety[C11]
//@   requires msg != nil && tagBL(msg) != tagCS(msg)
//@   requires u.Validator != nil
//@   call validateRaw#1:
//@     witness rawErr = ret
//@     assert[C03] @sameinput arg0 == msg && string(arg1) == string(d)
//@     assert[C03] @pristine mBeginKV(msg) == old(mBeginKV(msg)) && mBeginKV(msg).Value == old(mBeginKV(msg).Value) && nullV(mBeginKV(msg).Value) == old(nullV(mBeginKV(msg).Value)) && string(wireV(mBeginKV(msg).Value)) == old(string(wireV(mBeginKV(msg).Value)))
//@   ensures[C03] @viaValidateRaw imp(err == nil, rawErr == nil)

//@ func Unmarshal(msg messages.Builder, d []byte) (err error)
//@   safety[C11]
//@   requires msg != nil && tagBL(msg) != tagCS(msg)
//@   call Unmarshal#1:
//@     witness innerErr = ret
//@     assert[C03] @sameinput arg1 == msg && string(arg2) == string(d)
//@   ensures[C03] @viaUnmarshal imp(err == nil, innerErr == nil)

// Not decided deductively: the composed inverse over nested templates (C02 (c)). A bounded
// stand-in (random templates and populations within a stated bound, /verif/bounded) runs
// with the check and is reported as bounded, never as proved.
//@ bounded[C02] c02_roundtrip: unmarshalItems(template, serialize(m)) succeeds and re-serializes to the same bytes, over nested templates
// The closing step of C03 ("one byte off a framed message is not framed") is trusted in the
// proof above; a bounded stand-in tries every single-byte edit of a fixed set of messages.
//@ bounded[C03] c03_single_byte_edits @tests: every single-byte substitution, insertion, deletion and proper prefix of a fixed set of valid messages is rejected, both strict modes
// The accepting direction (a valid message is parsed, whatever its values look like) is not
// stated deductively for the public entry point; the session properties that need a valid
// admin message to reach its handler carry this bounded stand-in.
//@ bounded[C02,C06,C10,C14,C15,C16] c02_valid_messages_accepted @tests: valid generated messages with adversarial values are accepted by encoding.Unmarshal in both strict modes and read back unchanged
