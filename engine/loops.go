package main

import (
	"fmt"
	"sort"
	"strings"
	"go/token"
	"go/types"

	"golang.org/x/tools/go/ssa"
)

// modset of a set of blocks: heap arrays possibly written, or everything.
type modSet struct {
	region map[*ssa.BasicBlock]bool // blocks of the loop being summarised (nil: none)
	all    bool
	arrs   map[string]bool
	ghosts map[string]bool
	alloc  bool
}

func (e *Exec) modOfBlocks(blocks map[*ssa.BasicBlock]bool, depth int, ms *modSet) {
	for b := range blocks {
		for _, in := range b.Instrs {
			e.modOfInstr(in, depth, ms)
		}
	}
}

func (e *Exec) modOfInstr(in ssa.Instruction, depth int, ms *modSet) {
	if depth == 0 && e.fc != nil {
		// ghost assignments attached to this site by the contract
		if cs, ok := e.callOrd[in]; ok {
			for _, sec := range e.fc.Calls {
				if sec.Callee == cs.name && sec.N == cs.k {
					for _, g := range sec.Set {
						ms.ghosts[g.Name] = true
					}
				}
			}
		}
	}
	switch x := in.(type) {
	case *ssa.Store:
		switch a := x.Addr.(type) {
		case *ssa.FieldAddr:
			// fields of an object allocated inside the region are fresh in every iteration
			if al, isAlloc := a.X.(*ssa.Alloc); isAlloc && ms.region != nil && (ms.region[al.Block()] || depth > 0) {
				break
			}
			stt, T := structOf(a.X.Type())
			if stt != nil {
				e.addFieldArrs(ms, T, stt.Field(a.Field).Name(), stt.Field(a.Field).Type())
			}
		case *ssa.IndexAddr:
			if _, isArr := a.X.Type().Underlying().(*types.Pointer); isArr {
				// local array literal
			} else if sl, ok := a.X.Type().Underlying().(*types.Slice); ok {
				// element stores into a slice made in the same region only touch fresh references
				if mk, fresh := a.X.(*ssa.MakeSlice); !fresh || ms.region == nil || !(ms.region[mk.Block()] || depth > 0) {
					n, _ := e.seqArr(sl.Elem())
					ms.arrs[n] = true
				}
			}
		case *ssa.Alloc:
			// a cell or object allocated inside the region is fresh in every iteration
			if ms.region == nil || !(ms.region[a.Block()] || depth > 0) {
				if p, ok := x.Addr.Type().Underlying().(*types.Pointer); ok {
					if stt, T := structOf(p); stt != nil {
						for i := 0; i < stt.NumFields(); i++ {
							e.addFieldArrs(ms, T, stt.Field(i).Name(), stt.Field(i).Type())
						}
					} else {
						e.addCellArrs(ms, p.Elem())
					}
				}
			}
		default:
			// cell or unknown pointer
			if p, ok := x.Addr.Type().Underlying().(*types.Pointer); ok {
				if stt, T := structOf(p); stt != nil {
					for i := 0; i < stt.NumFields(); i++ {
						e.addFieldArrs(ms, T, stt.Field(i).Name(), stt.Field(i).Type())
					}
				} else {
					e.addCellArrs(ms, p.Elem())
				}
			}
		}
	case *ssa.Alloc, *ssa.MakeInterface, *ssa.MakeClosure, *ssa.MakeSlice, *ssa.MakeMap, *ssa.MakeChan:
		ms.alloc = true
	case *ssa.MapUpdate:
		for _, n := range []string{"MAPD_Int", "MAPD_String", "MAPV_Int_Int", "MAPV_Int_Bool", "MAPV_Int_String", "MAPV_String_Int", "MAPV_String_Bool", "MAPV_String_String"} {
			ms.arrs[n] = true
		}
	case *ssa.Send:
		e.modOfChan(x.Chan, true, ms)
		ms.ghosts["clock"] = true
	case *ssa.Select:
		for _, stt := range x.States {
			e.modOfChan(stt.Chan, stt.Dir == types.SendOnly, ms)
		}
		if x.Blocking {
			ms.ghosts["clock"] = true
			for _, stt := range x.States {
				if u, ok := stt.Chan.(*ssa.UnOp); ok {
					if fa, ok := u.X.(*ssa.FieldAddr); ok {
						if st2, T := structOf(fa.X.Type()); st2 != nil && fieldArrName(T, st2.Field(fa.Field).Name()) == tickerChanOrigin && e.gfDeclared("lastTick") {
							ms.arrs["GF_lastTick"] = true
						}
					}
				}
			}
		}
	case *ssa.UnOp:
		if x.Op == token.ARROW {
			e.modOfChan(x.X, false, ms)
			ms.ghosts["clock"] = true
		}
	case ssa.CallInstruction:
		c := x.Common()
		if b, ok := c.Value.(*ssa.Builtin); ok {
			if b.Name() == "append" {
				ms.alloc = true // appends build fresh sequences: no pre-existing reference is written
			}
			return
		}
		callee := c.StaticCallee()
		if callee != nil && !inModule(callee) {
			if xf := e.P.CS.Externs[calleeFullName(callee)]; xf != nil {
				ms.alloc = true
				for _, m := range xf.Modifies {
					e.modOfClause(xf, m, ms)
				}
				return
			}
			if e.stdlibEffect(callee, ms) {
				return
			}
			return // stdlib assumed not to touch library heap
		}
		var fc *FuncContract
		if callee != nil {
			fc = e.P.contractFor(callee)
		} else if c.IsInvoke() {
			fc = e.P.ifaceMethodContract(c.Value.Type(), c.Method.Name())
		}
		if fc != nil && !fc.Inline {
			ms.alloc = true
			if fc.Pure {
				return
			}
			for _, m := range fc.Modifies {
				e.modOfClause(fc, m, ms)
			}
			return
		}
		if c.IsInvoke() {
			// a method of an interface declared outside the module without a contract:
			// same treatment as at execution time (result unconstrained, no heap effect)
			if n, ok := types.Unalias(c.Value.Type()).(*types.Named); ok && n.Obj().Pkg() != nil && !strings.HasPrefix(n.Obj().Pkg().Path(), modPath) {
				return
			}
		}
		if callee == nil && !c.IsInvoke() && isCancelFunc(c.Value.Type()) && e.gfDeclared("cancelled") {
			ms.arrs["GF_cancelled"] = true
		}
		cbMode := ""
		if callee == nil && !c.IsInvoke() && e.fc != nil {
			// a function value loaded from a field declared as a callback
			if u, ok := c.Value.(*ssa.UnOp); ok {
				if fa, ok := u.X.(*ssa.FieldAddr); ok {
					if stt, T := structOf(fa.X.Type()); stt != nil {
						e.P.initFieldDecls()
						if fd := e.P.fdCache[fieldArrName(T, stt.Field(fa.Field).Name())+"/callback"]; fd != nil {
							cbMode = "pure"
							if len(fd.Args) > 0 {
								cbMode = fd.Args[0]
							}
						}
					}
				}
			}
		}
		if cbMode == "" && callee == nil && !c.IsInvoke() && e.fc != nil {
			cbMode = e.fc.DefaultCallback
			if p, ok := c.Value.(*ssa.Parameter); ok {
				for _, cb := range e.fc.Callbacks {
					if f := strings.Fields(cb); len(f) == 2 && f[0] == p.Name() {
						cbMode = f[1]
					}
				}
			}
		}
		if cbMode == "app" || cbMode == "pure" {
			// declared callback: no effect on library heap; ghosts the function may modify are havocked
			if cbMode == "app" {
				// the call trace itself is extended by every handler invocation
				for _, g := range []string{"callN", "callAt", "callRet"} {
					ms.ghosts[g] = true
				}
				for _, m := range e.fc.Modifies {
					if _, ok := e.P.CS.Ghosts[strings.TrimSpace(m)]; ok && !e.isEpilogueTarget(strings.TrimSpace(m)) {
						ms.ghosts[strings.TrimSpace(m)] = true
					}
				}
			}
			return
		}
		if callee != nil && depth < 4 && len(callee.Blocks) > 0 && len(findLoops(callee)) == 0 {
			for _, b := range callee.Blocks {
				for _, i2 := range b.Instrs {
					e.modOfInstr(i2, depth+1, ms)
				}
			}
			return
		}
		ms.all = true
	}
}

// modOfChan: a send extends, a receive advances the ghost log of the channel.
// The channel is identified when it is loaded from a declared field; otherwise
// every log is taken to be affected.
func (e *Exec) modOfChan(ch ssa.Value, send bool, ms *modSet) {
	var match func(cl *ChanLog) bool
	if u, ok := ch.(*ssa.UnOp); ok {
		if fa, ok := u.X.(*ssa.FieldAddr); ok {
			if stt, T := structOf(fa.X.Type()); stt != nil {
				name := fieldArrName(T, stt.Field(fa.Field).Name())
				match = func(cl *ChanLog) bool {
					var pk *types.Package
					if sp := e.P.SPkgs[cl.PkgPath]; sp != nil {
						pk = sp.Pkg
					}
					t := resolveTypeIn(e.P, pk, cl.Type)
					return t != nil && fieldArrName(t, cl.Field) == name
				}
			}
		}
	}
	for _, cl := range e.P.CS.ChanLogs {
		if match != nil && !match(cl) {
			continue
		}
		if send {
			ms.ghosts[cl.N] = true
			ms.ghosts[cl.At] = true
		} else if cl.Recv != "" {
			ms.ghosts[cl.Recv] = true
		}
	}
}

func (e *Exec) addFieldArrs(ms *modSet, T types.Type, fname string, ft types.Type) {
	base := fieldArrName(T, fname)
	switch kindOf(ft) {
	case KBytes:
		ms.arrs[base+"_s"] = true
		ms.arrs[base+"_n"] = true
	case KStruct:
		stt := ft.Underlying().(*types.Struct)
		for i := 0; i < stt.NumFields(); i++ {
			e.addFieldArrs(ms, T, fname+"."+stt.Field(i).Name(), stt.Field(i).Type())
		}
	default:
		ms.arrs[base] = true
	}
}

func (e *Exec) addCellArrs(ms *modSet, t types.Type) {
	switch kindOf(t) {
	case KBytes:
		ms.arrs["CELL_Bytes_s"] = true
		ms.arrs["CELL_Bytes_n"] = true
	case KInt, KRef:
		ms.arrs["CELL_Int"] = true
	case KBool:
		ms.arrs["CELL_Bool"] = true
	case KStr:
		ms.arrs["CELL_String"] = true
	}
}

// modOfClause interprets one entry of a `modifies` list for mod-set purposes.
func (e *Exec) modOfClause(fc *FuncContract, m string, ms *modSet) {
	if m == "*" {
		ms.all = true
		return
	}
	if _, ok := e.P.CS.Ghosts[m]; ok {
		ms.ghosts[m] = true
		return
	}
	if name, _, ok := ghostFieldLoc(e.P, m); ok {
		ms.arrs["GF_"+name] = true
		return
	}
	// forms: T.f (type-level) or x.f (location): both touch field arrays named f of the type of x
	names := e.P.modArrays(fc, m)
	if names == nil {
		ms.all = true
		return
	}
	for _, n := range names {
		ms.arrs[n] = true
	}
}

// cutLoop: assert invariants on entry, havoc, assume invariants.
func (e *Exec) cutLoop(fr *Frame, li *loopInfo, st *State) *State {
	var spec *LoopSpec
	if e.fc.Loops != nil {
		spec = e.fc.Loops[li.n]
	}
	if spec == nil {
		spec = &LoopSpec{N: li.n}
		e.note("%s: loop %d has no invariant (using true)", e.name, li.n)
	}
	// entry check
	env := e.loopEnv(fr, li, st, nil)
	for _, lm := range spec.Lemmas {
		e.instLemma(env, lm, st)
	}
	for i, inv := range spec.Invariants {
		g := e.evalBool(env, inv.Expr)
		lbl := inv.Label
		if lbl == "" {
			lbl = fmt.Sprintf("%d", i+1)
		}
		e.oblige(st, fmt.Sprintf("loop%d:inv-entry:%s", li.n, lbl), "inv-entry", inv.Tags, g, inv.Text, li.header.Instrs[0].Pos())
	}
	// havoc
	ms := &modSet{arrs: map[string]bool{}, ghosts: map[string]bool{}, region: li.blocks}
	e.modOfBlocks(li.blocks, 0, ms)
	// loop frame: `modifies gf(x)` in a loop section says that, of the ghost
	// attribute gf, only the one at x changes inside the loop (checked on every
	// back edge); everything else of that array survives the cut.
	located := map[string][]string{}
	for _, m := range spec.Modifies {
		if name, argSrc, ok := ghostFieldLoc(e.P, strings.TrimSpace(m)); ok && argSrc != "*" {
			if ex, err := parseExprSafe(argSrc); err == nil {
				located["GF_"+name] = append(located["GF_"+name], e.evalExpr(env, ex).t())
				continue
			}
		}
		// x.f with x a pointer to a struct: only that object's field changes
		if dot := strings.LastIndex(m, "."); dot > 0 && !strings.Contains(m, "(") {
			baseSrc, fname := strings.TrimSpace(m[:dot]), strings.TrimSpace(m[dot+1:])
			root := baseSrc
			if i := strings.Index(root, "."); i >= 0 {
				root = root[:i]
			}
			if hasVar(env, root) && fname != "*" {
				if ex, err := parseExprSafe(baseSrc); err == nil {
					base := e.evalExpr(env, ex)
					if base.T != nil {
						if stt, _ := structOf(base.T); stt != nil {
							done := false
							for _, an := range fieldArrays(base.T, fname) {
								located[an] = append(located[an], base.t())
								ms.arrs[an] = true
								done = true
							}
							if done {
								continue
							}
						}
					}
				}
			}
		}
		e.modOfClause(e.fc, m, ms)
	}
	st = st.clone()
	pre := st.clone()
	if ms.all {
		e.havocAll(st)
		e.note("%s: loop %d contains an uncontracted call: whole heap havocked", e.name, li.n)
	} else {
		for _, a := range sortedKeys(ms.arrs) {
			if locs, ok := located[a]; ok {
				if srt, ok := e.arrSort[a]; ok {
					t := e.arrTerm(st, a, srt)
					for _, l := range locs {
						t = sx("store", t, l, e.S.Fresh("loopmod_"+a, srt))
					}
					st.heap[a] = e.S.Define(a, "(Array Int "+srt+")", t)
					continue
				}
			}
			e.havocArr(st, a)
		}
		for g := range ms.ghosts {
			if v, ok := st.ghost[g]; ok {
				st.ghost[g] = e.freshVal("g_"+g, v.T, v.K)
			}
		}
		if ms.alloc {
			e.bumpTop(st)
		}
	}
	e.loopTop = st.top
	_ = pre
	if len(located) > 0 {
		if e.loopFrames == nil {
			e.loopFrames = map[int]map[string]loopFrame{}
		}
		e.loopFrames[li.n] = map[string]loopFrame{}
		for a, locs := range located {
			if srt, ok := e.arrSort[a]; ok {
				e.loopFrames[li.n][a] = loopFrame{e.arrTerm(st, a, srt), locs}
			}
		}
	}
	for _, in := range li.header.Instrs {
		phi, ok := in.(*ssa.Phi)
		if !ok {
			break
		}
		v := e.freshVal(fmt.Sprintf("%s_%s_L%d", phi.Name(), sanitize(phi.Comment), li.n), phi.Type(), kindOf(phi.Type()))
		if v.K == KBytes {
			v.Ident = fmt.Sprintf("L%d:%s", li.n, phi.Name())
		}
		e.typeFacts(v, phi.Type(), st)
		fr.vals[phi] = v
	}
	// local arrays do not survive a loop cut
	for k := range st.larr {
		if li.blocks[k.Block()] {
			delete(st.larr, k)
		}
	}
	env = e.loopEnv(fr, li, st, nil)
	for _, inv := range spec.Invariants {
		e.S.Assert(sImp(st.reach, e.evalBool(env, inv.Expr)))
	}
	for _, lm := range spec.Lemmas {
		e.instLemma(env, lm, st)
	}
	if spec.Decreases != nil {
		m := e.evalExpr(env, spec.Decreases.Expr)
		e.measures[li.n] = e.S.Define("measure", "Int", m.t())
	}
	return st
}

func (e *Exec) checkBackEdge(fr *Frame, li *loopInfo, from *ssa.BasicBlock, st *State) {
	var spec *LoopSpec
	if e.fc.Loops != nil {
		spec = e.fc.Loops[li.n]
	}
	if spec == nil {
		return
	}
	st = st.clone()
	st.reach = e.S.Define("reach", "Bool", sAnd(st.reach, edgeCond(fr, e, from, li.header, st)))
	e.checkCarried(fr, st, li, from, backSuffix(li, from))
	for _, a := range sortedKeys(e.loopFrames[li.n]) {
		lf := e.loopFrames[li.n][a]
		cur := e.arrTerm(st, a, e.arrSort[a])
		want := lf.header
		for _, l := range lf.locs {
			want = sx("store", want, l, sx("select", cur, l))
		}
		e.oblige(st, fmt.Sprintf("loop%d:frame:%s%s", li.n, a, backSuffix(li, from)), "frame", e.fc.frameTags(), sEq(cur, want),
			"inside the loop "+a+" changes only at the locations the loop's modifies clause names", from.Instrs[len(from.Instrs)-1].Pos())
	}
	env := e.loopEnv(fr, li, st, from)
	for i, inv := range spec.Invariants {
		g := e.evalBool(env, inv.Expr)
		lbl := inv.Label
		if lbl == "" {
			lbl = fmt.Sprintf("%d", i+1)
		}
		e.oblige(st, fmt.Sprintf("loop%d:inv-keep:%s%s", li.n, lbl, backSuffix(li, from)), "inv-keep", inv.Tags, g, inv.Text, from.Instrs[len(from.Instrs)-1].Pos())
	}
	if spec.Decreases != nil {
		m0 := vInt(e.measures[li.n])
		m1 := e.evalExpr(env, spec.Decreases.Expr)
		tags := spec.Decreases.Tags
		if len(tags) == 0 {
			tags = e.fc.Term
		}
		e.oblige(st, fmt.Sprintf("loop%d:decreases%s", li.n, backSuffix(li, from)), "decr", tags, sAnd(sx("<=", "0", m0.t()), sx("<", m1.t(), m0.t())), spec.Decreases.Text, from.Instrs[len(from.Instrs)-1].Pos())
	}
}

// loopEnv builds the name environment for loop clauses: at the header
// (from == nil: phi values as currently bound) or along a back edge (phi
// names bound to the values flowing in from `from`).
func (e *Exec) loopEnv(fr *Frame, li *loopInfo, st *State, from *ssa.BasicBlock) *Env {
	env := e.funcEnv(fr, st)
	// function-level witnesses that make sense without results are usable in loop clauses
	env.soft = true
	for _, w := range e.fc.Witness {
		if w.Kind != "witness" {
			continue
		}
		w := w
		e.softly(func() { env.vars[w.Name] = e.evalExpr(env, w.Expr) })
	}
	env.soft = false
	for _, in := range li.header.Instrs {
		phi, ok := in.(*ssa.Phi)
		if !ok {
			break
		}
		var v Val
		if from == nil {
			v = fr.vals[phi]
		} else {
			v = coerce(e.val(fr, phi.Edges[predIndex(li.header, from)], st), phi.Type())
		}
		if phi.Comment == "rangeindex" {
			env.vars["iter"] = vInt(sx("+", v.t(), "1"))
		} else if phi.Comment != "" {
			env.vars[phi.Comment] = v
			if !hasRangeIndex(li.header) && v.K == KInt {
				if init, ok := countedLoopInit(li, phi); ok {
					if iv := e.val(fr, init, st); iv.K == KInt {
						env.vars["iter"] = vInt(sx("-", v.t(), iv.t()))
					}
				}
			}
		}
		env.vars[phi.Name()] = v
	}
	return env
}

func backSuffix(li *loopInfo, from *ssa.BasicBlock) string {
	if len(li.backs) <= 1 {
		return ""
	}
	bs := append([]*ssa.BasicBlock{}, li.backs...)
	sort.Slice(bs, func(i, j int) bool { return bs[i].Index < bs[j].Index })
	for i, b := range bs {
		if b == from {
			return fmt.Sprintf("@edge%d", i+1)
		}
	}
	return ""
}

func (e *Exec) isEpilogueTarget(g string) bool {
	for _, ep := range e.fc.Epilogue {
		if ep.Name == g {
			return true
		}
	}
	return false
}
