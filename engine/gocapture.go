package main

// Rule "go-captures": a local variable that a goroutine started with `go func(){...}()`
// captures by reference must not be assigned by the spawning function after the
// `go` statement (in particular not in a later iteration of the loop that contains
// it). Otherwise the goroutine may observe the later value - a data race and, for
// per-connection variables, cross-talk between connections. The rule is decided
// on the SSA form of every function of the module: captured variables are the
// heap cells bound by the closure, "after" is control-flow reachability from the
// go instruction. One obligation per captured variable.

import (
	"fmt"
	"strings"

	"go/token"
	"go/types"

	"golang.org/x/tools/go/ssa"
)

func goCaptureSweep(p *Prog, prop string, rr *RunResult) {
	tags := p.CS.Rules["go-captures"]
	if !contains(tags, prop) {
		return
	}
	for _, k := range sortedKeys(p.FnByKey) {
		fn := p.FnByKey[k]
		if len(fn.Blocks) == 0 || strings.HasSuffix(p.SSA.Fset.Position(fn.Pos()).Filename, "_test.go") {
			continue
		}
		var e *Exec
		n := 0
		for _, b := range fn.Blocks {
			for idx, in := range b.Instrs {
				g, ok := in.(*ssa.Go)
				if !ok {
					continue
				}
				mc, ok := g.Call.Value.(*ssa.MakeClosure)
				if !ok {
					continue
				}
				after := reachableAfter(b, idx)
				for _, bind := range mc.Bindings {
					var name string
					switch v := bind.(type) {
					case *ssa.Alloc:
						name = v.Comment
					case *ssa.FreeVar:
						name = v.Name()
					default:
						continue
					}
					late := ""
					for _, ref := range *bind.Referrers() {
						st, ok := ref.(*ssa.Store)
						if !ok || st.Addr != bind {
							continue
						}
						if after(st) {
							late = p.SSA.Fset.Position(st.Pos()).String()
						}
					}
					if e == nil {
						e = newExec(p, dispName(fn))
						e.fn = fn
					}
					n++
					goal := "true"
					desc := fmt.Sprintf("variable %s captured by the goroutine started here is not assigned by %s afterwards", name, dispName(fn))
					if late != "" {
						goal = "false"
						desc += " (assigned at " + late + ")"
					}
					st := &State{reach: "true"}
					o := e.obligeNoAssume(st, fmt.Sprintf("gocapture:%s:%d", name, n), "discipline", tags, goal, desc, g.Pos())
					o.Pos = posOf(p, g.Pos())
				}
			}
		}
		if e != nil {
			rr.Execs = append(rr.Execs, e)
			rr.Functions = append(rr.Functions, e.name+" (go-captures rule)")
			rr.Obls = append(rr.Obls, e.obls...)
		}
	}
}

// reachableAfter: does an instruction execute (possibly) after position idx of block b?
func reachableAfter(b *ssa.BasicBlock, idx int) func(ssa.Instruction) bool {
	seen := map[*ssa.BasicBlock]bool{}
	var walk func(x *ssa.BasicBlock)
	walk = func(x *ssa.BasicBlock) {
		if seen[x] {
			return
		}
		seen[x] = true
		for _, s := range x.Succs {
			walk(s)
		}
	}
	for _, s := range b.Succs {
		walk(s)
	}
	return func(in ssa.Instruction) bool {
		ib := in.Block()
		if seen[ib] {
			return true
		}
		if ib == b {
			for j, x := range b.Instrs {
				if x == in {
					return j > idx
				}
			}
		}
		return false
	}
}

// Rule "ordered-iteration": the listed functions decide the content of generated
// output; none of them may iterate over a Go map (whose order is random), nor may a
// closure inside them. One obligation per function.
func orderedIterationSweep(p *Prog, prop string, rr *RunResult) {
	tags := p.CS.Rules["ordered-iteration"]
	if !contains(tags, prop) {
		return
	}
	for _, k := range p.CS.RuleArgs["ordered-iteration"] {
		fn := p.FnByKey[k]
		if fn == nil {
			rr.Unbound = append(rr.Unbound, k)
			continue
		}
		where := ""
		var scan func(f *ssa.Function)
		scan = func(f *ssa.Function) {
			for _, b := range f.Blocks {
				for _, in := range b.Instrs {
					if r, ok := in.(*ssa.Range); ok {
						if _, isMap := r.X.Type().Underlying().(*types.Map); isMap && where == "" {
							where = p.SSA.Fset.Position(r.Pos()).String()
						}
					}
				}
			}
			for _, a := range f.AnonFuncs {
				scan(a)
			}
		}
		scan(fn)
		e := newExec(p, dispName(fn))
		e.fn = fn
		goal, desc := "true", "no iteration over a map in "+dispName(fn)+" (its result goes into generated output)"
		if where != "" {
			goal = "false"
			desc += " (map range at " + where + ")"
		}
		st := &State{reach: "true"}
		o := e.obligeNoAssume(st, "ordered-iteration", "discipline", tags, goal, desc, fn.Pos())
		o.Pos = posOf(p, fn.Pos())
		rr.Execs = append(rr.Execs, e)
		rr.Functions = append(rr.Functions, e.name+" (ordered-iteration rule)")
		rr.Obls = append(rr.Obls, e.obls...)
	}
}

// Rule "lock-copies": a value of a struct type that contains a sync.Mutex, RWMutex, Once
// or WaitGroup (directly or in a nested struct/array) is never copied: no parameter or
// receiver of such a type by value, no load of a whole such struct through a pointer.
// A copied lock protects nothing - the copy is locked while the shared data is used.
// One obligation per function of the module (non-test).
func lockCopySweep(p *Prog, prop string, rr *RunResult) {
	tags := p.CS.Rules["lock-copies"]
	if !contains(tags, prop) {
		return
	}
	for _, k := range sortedKeys(p.FnByKey) {
		fn := p.FnByKey[k]
		if len(fn.Blocks) == 0 || strings.HasSuffix(p.SSA.Fset.Position(fn.Pos()).Filename, "_test.go") {
			continue
		}
		where := ""
		for _, prm := range fn.Params {
			if containsLock(prm.Type(), 0) && where == "" {
				where = "parameter " + prm.Name() + " of type " + prm.Type().String() + " is passed by value"
			}
		}
		for _, b := range fn.Blocks {
			for _, in := range b.Instrs {
				if u, ok := in.(*ssa.UnOp); ok && u.Op == token.MUL && containsLock(u.Type(), 0) && where == "" {
					if _, isAlloc := u.X.(*ssa.Alloc); isAlloc {
						continue // reading a local of that type back (zero value just declared)
					}
					where = "a " + u.Type().String() + " is copied at " + p.SSA.Fset.Position(u.Pos()).String()
				}
			}
		}
		if where == "" && !touchesLockTypes(fn) {
			continue
		}
		e := newExec(p, dispName(fn))
		e.fn = fn
		goal, desc := "true", "no value containing a lock is copied in "+dispName(fn)
		if where != "" {
			goal = "false"
			desc += " (" + where + ")"
		}
		st := &State{reach: "true"}
		o := e.obligeNoAssume(st, "lock-copies", "discipline", tags, goal, desc, fn.Pos())
		o.Pos = posOf(p, fn.Pos())
		rr.Execs = append(rr.Execs, e)
		rr.Functions = append(rr.Functions, e.name+" (lock-copies rule)")
		rr.Obls = append(rr.Obls, e.obls...)
	}
}

func containsLock(t types.Type, depth int) bool {
	if depth > 6 {
		return false
	}
	switch types.TypeString(types.Unalias(t), nil) {
	case "sync.Mutex", "sync.RWMutex", "sync.Once", "sync.WaitGroup":
		return true
	}
	switch u := t.Underlying().(type) {
	case *types.Struct:
		for i := 0; i < u.NumFields(); i++ {
			if containsLock(u.Field(i).Type(), depth+1) {
				return true
			}
		}
	case *types.Array:
		return containsLock(u.Elem(), depth+1)
	}
	return false
}

// touchesLockTypes: the function has a receiver or parameter that points to a lock-holding struct
// (those are the functions for which the rule says something).
func touchesLockTypes(fn *ssa.Function) bool {
	for _, prm := range fn.Params {
		if pt, ok := prm.Type().Underlying().(*types.Pointer); ok && containsLock(pt.Elem(), 0) {
			return true
		}
	}
	return false
}

// Rule "covered-callers: F, G, ...": the listed functions change state that the proofs of
// the tagged properties are about (the session state machine, the outbound message log).
// Every function of the module that calls one of them must itself be covered by a proof:
// it has a contract, or it is an uncontracted helper/closure that is only ever *called*
// (or deferred) by covered functions and is small enough to be executed in line with them.
// A goroutine body, a stored function value or a public entry point that calls one of the
// listed functions without a contract is an effect no obligation speaks about. One
// obligation per call site of a listed function.
func coveredCallersSweep(p *Prog, prop string, rr *RunResult) {
	tags := p.CS.Rules["covered-callers"]
	if !contains(tags, prop) {
		return
	}
	targets := map[*ssa.Function]bool{}
	handlerTargets := map[string]bool{} // "pkg::Type.field.Method": function values registered through it must be under contract
	fieldTargets := map[string]bool{} // "pkg::Type.field.Method" (method invoked on the value of a field) or "pkg::send Type.field"
	for _, k := range p.CS.RuleArgs["covered-callers"] {
		a := k[strings.Index(k, "::")+2:]
		if strings.HasPrefix(a, "handlers ") {
			handlerTargets[k[:strings.Index(k, "::")+2]+strings.TrimSpace(a[len("handlers "):])] = true
			continue
		}
		if strings.HasPrefix(a, "send ") || strings.HasPrefix(a, "write ") || (!strings.Contains(a, "(") && strings.Count(a, ".") == 2) {
			fieldTargets[k] = true
			continue
		}
		fn := p.FnByKey[k]
		if fn == nil {
			rr.Unbound = append(rr.Unbound, k)
			continue
		}
		targets[fn] = true
	}
	// fieldOf: the value was loaded from field Type.f (returns "pkg::Type.f")
	fieldOf := func(v ssa.Value) string {
		u, ok := v.(*ssa.UnOp)
		if !ok || u.Op != token.MUL {
			return ""
		}
		fa, ok := u.X.(*ssa.FieldAddr)
		if !ok {
			return ""
		}
		stt, T := structOf(fa.X.Type())
		if stt == nil || T == nil {
			return ""
		}
		nt, ok := types.Unalias(T).(*types.Named)
		if !ok || nt.Obj().Pkg() == nil {
			return ""
		}
		return nt.Obj().Pkg().Path() + "::" + nt.Obj().Name() + "." + stt.Field(fa.Field).Name()
	}
	// sensitive: the instruction is a call of a listed function, an invocation of a listed
	// method on the value of a listed field, or a send on a listed channel field
	sensitive := func(in ssa.Instruction) string {
		switch x := in.(type) {
		case *ssa.Store:
			if fa, ok := x.Addr.(*ssa.FieldAddr); ok {
				if stt, T := structOf(fa.X.Type()); stt != nil && T != nil {
					if nt, ok := types.Unalias(T).(*types.Named); ok && nt.Obj().Pkg() != nil {
						if fieldTargets[nt.Obj().Pkg().Path()+"::write "+nt.Obj().Name()+"."+stt.Field(fa.Field).Name()] {
							return "write of " + nt.Obj().Name() + "." + stt.Field(fa.Field).Name()
						}
					}
				}
			}
		case *ssa.Send:
			if f := fieldOf(x.Chan); f != "" {
				k := f[:strings.Index(f, "::")+2] + "send " + f[strings.Index(f, "::")+2:]
				if fieldTargets[k] {
					return "send on " + f[strings.Index(f, "::")+2:]
				}
			}
		case *ssa.Select:
			for _, st := range x.States {
				if st.Dir != types.SendOnly {
					continue
				}
				if f := fieldOf(st.Chan); f != "" {
					k := f[:strings.Index(f, "::")+2] + "send " + f[strings.Index(f, "::")+2:]
					if fieldTargets[k] {
						return "send on " + f[strings.Index(f, "::")+2:]
					}
				}
			}
		case ssa.CallInstruction:
			c := x.Common()
			if c.IsInvoke() {
				if f := fieldOf(c.Value); f != "" && fieldTargets[f+"."+c.Method.Name()] {
					return f[strings.Index(f, "::")+2:] + "." + c.Method.Name()
				}
				return ""
			}
			if callee := c.StaticCallee(); callee != nil && targets[callee] {
				return callee.Name()
			}
		}
		return ""
	}
	var fns []*ssa.Function
	for _, k := range sortedKeys(p.FnByKey) {
		fn := p.FnByKey[k]
		if len(fn.Blocks) == 0 || strings.HasSuffix(p.SSA.Fset.Position(fn.Pos()).Filename, "_test.go") {
			continue
		}
		fns = append(fns, fn)
	}
	// uses of every function: who calls it, and is it used in any other way
	type use struct {
		by     *ssa.Function
		called bool // plain call or defer (executed in line by the caller's proof)
	}
	uses := map[*ssa.Function][]use{}
	for _, f := range fns {
		for _, b := range f.Blocks {
			for _, in := range b.Instrs {
				var operands []*ssa.Value
				operands = in.Operands(operands)
				var calleeVal ssa.Value
				inline := false
				switch c := in.(type) {
				case *ssa.Call:
					calleeVal, inline = c.Call.Value, !c.Call.IsInvoke()
				case *ssa.Defer:
					calleeVal, inline = c.Call.Value, !c.Call.IsInvoke()
				}
				for _, op := range operands {
					if op == nil || *op == nil {
						continue
					}
					var g *ssa.Function
					switch v := (*op).(type) {
					case *ssa.Function:
						g = v
					case *ssa.MakeClosure:
						continue // the MakeClosure instruction itself records the use of its Fn below
					}
					if g == nil {
						continue
					}
					if _, isMC := in.(*ssa.MakeClosure); isMC {
						continue
					}
					uses[g] = append(uses[g], use{f, inline && *op == calleeVal})
				}
				if mc, ok := in.(*ssa.MakeClosure); ok {
					g := mc.Fn.(*ssa.Function)
					refs := mc.Referrers()
					if refs == nil || len(*refs) == 0 {
						uses[g] = append(uses[g], use{f, false})
					} else {
						for _, r := range *refs {
							switch c := r.(type) {
							case *ssa.Call:
								uses[g] = append(uses[g], use{f, c.Call.Value == mc && !c.Call.IsInvoke()})
							case *ssa.Defer:
								uses[g] = append(uses[g], use{f, c.Call.Value == mc && !c.Call.IsInvoke()})
							case *ssa.DebugRef:
							default:
								uses[g] = append(uses[g], use{f, false})
							}
						}
					}
				}
			}
		}
	}
	state := map[*ssa.Function]int{} // 1 = in progress, 2 = covered, 3 = not covered
	why := map[*ssa.Function]string{}
	var covered func(f *ssa.Function) bool
	covered = func(f *ssa.Function) bool {
		switch state[f] {
		case 1, 3:
			return false
		case 2:
			return true
		}
		state[f] = 1
		ok := false
		if p.contractFor(f) != nil || p.refined(f) {
			ok = true
		} else if len(uses[f]) == 0 {
			why[f] = "it has no contract and no caller in the module (an entry point)"
		} else if len(findLoops(f)) > 0 {
			why[f] = "it has no contract and contains a loop, so no caller's proof executes it"
		} else {
			ok = true
			for _, u := range uses[f] {
				if !u.called {
					ok = false
					why[f] = "it has no contract and is started as a goroutine, stored or passed as a value in " + dispName(u.by)
					break
				}
				if !covered(u.by) {
					ok = false
					why[f] = "it has no contract and its caller " + dispName(u.by) + " is not covered either"
					break
				}
			}
		}
		if ok {
			state[f] = 2
		} else {
			state[f] = 3
		}
		return ok
	}
	for _, f := range fns {
		var e *Exec
		n := 0
		for _, b := range f.Blocks {
			for _, in := range b.Instrs {
				if ci, ok := in.(ssa.CallInstruction); ok && ci.Common().IsInvoke() {
					c := ci.Common()
					if fo := fieldOf(c.Value); fo != "" && handlerTargets[fo+"."+c.Method.Name()] {
						for _, a := range c.Args {
							if _, isFn := a.Type().Underlying().(*types.Signature); !isFn {
								continue
							}
							var target *ssa.Function
							for {
								if ct, ok := a.(*ssa.ChangeType); ok {
									a = ct.X
									continue
								}
								break
							}
							switch v := a.(type) {
							case *ssa.MakeClosure:
								target = v.Fn.(*ssa.Function)
							case *ssa.Function:
								target = v
							}
							if target != nil && strings.HasPrefix(target.Synthetic, "bound method wrapper") {
								if obj, ok := target.Object().(*types.Func); ok {
									if m := p.SSA.FuncValue(obj); m != nil {
										target = m
									}
								}
							}
							if e == nil {
								e = newExec(p, dispName(f))
								e.fn = f
							}
							n++
							goal := "true"
							desc := fmt.Sprintf("the function registered through %s.%s in %s has a contract (it becomes part of the handler chain the proofs are about)", fo[strings.Index(fo, "::")+2:], c.Method.Name(), dispName(f))
							if target == nil {
								goal = "false"
								desc += ": the registered function is not a function literal or method known here"
							} else if p.contractFor(target) == nil {
								goal = "false"
								desc += ": " + dispName(target) + " has none"
							}
							st := &State{reach: "true"}
							o := e.obligeNoAssume(st, fmt.Sprintf("covered-callers:handler-of-%s:%d", c.Method.Name(), n), "discipline", tags, goal, desc, in.Pos())
							o.Pos = posOf(p, in.Pos())
						}
					}
				}
				what := sensitive(in)
				if what == "" {
					continue
				}
				if e == nil {
					e = newExec(p, dispName(f))
					e.fn = f
				}
				n++
				goal := "true"
				desc := fmt.Sprintf("%s in %s is covered by a proof (the function has a contract or is executed in line by one that has)", what, dispName(f))
				if !covered(f) {
					goal = "false"
					desc += ": " + why[f]
				}
				st := &State{reach: "true"}
				o := e.obligeNoAssume(st, fmt.Sprintf("covered-callers:%s:%d", strings.ReplaceAll(what, " ", "-"), n), "discipline", tags, goal, desc, in.Pos())
				o.Pos = posOf(p, in.Pos())
			}
		}
		if e != nil {
			rr.Execs = append(rr.Execs, e)
			rr.Functions = append(rr.Functions, e.name+" (covered-callers rule)")
			rr.Obls = append(rr.Obls, e.obls...)
		}
	}
}

// refined: fn is the method of a module type that is verified against the method contract
// of a (non-assumed) interface it implements.
func (p *Prog) refined(fn *ssa.Function) bool {
	if p.refinedSet == nil {
		p.refinedSet = map[*ssa.Function]bool{}
		for _, ik := range sortedKeys(p.CS.Ifaces) {
			ic := p.CS.Ifaces[ik]
			if ic.Assumed {
				continue
			}
			sp := p.SPkgs[ic.PkgPath]
			if sp == nil {
				continue
			}
			obj := sp.Pkg.Scope().Lookup(ic.Name)
			if obj == nil {
				continue
			}
			it, ok := obj.Type().Underlying().(*types.Interface)
			if !ok {
				continue
			}
			for _, impl := range p.implementers(it) {
				if len(ic.Impls) > 0 {
					nm := types.TypeString(impl, func(*types.Package) string { return "" })
					if !contains(ic.Impls, nm) && !contains(ic.Impls, strings.TrimPrefix(nm, "*")) {
						continue
					}
				}
				for mn := range ic.Methods {
					sel := p.SSA.MethodSets.MethodSet(impl).Lookup(sp.Pkg, mn)
					if sel == nil {
						sel = p.SSA.MethodSets.MethodSet(impl).Lookup(nil, mn)
					}
					if sel == nil {
						continue
					}
					if f := p.SSA.MethodValue(sel); f != nil && f.Synthetic == "" && inModule(f) {
						p.refinedSet[f] = true
					}
				}
			}
		}
	}
	return p.refinedSet[fn]
}
