package main

import (
	"encoding/json"
	"fmt"
	"os"
	"path/filepath"
	"strings"
)

type KnownFinding struct {
	Property   string `json:"property"`
	Obligation string `json:"obligation"`
	Region     string `json:"region,omitempty"`
	Witness    string `json:"witness,omitempty"`
	What       string `json:"what"`
	Status     string `json:"status,omitempty"` // "open" (default) or "fixed"
	Commit     string `json:"commit,omitempty"`
	Text       string `json:"text,omitempty"`
	// WitnessPkg/WitnessTest: a Go test body (package-internal) replayed on the
	// real code through -overlay; it prints WITNESS-CONFIRMED while the defect exists.
	WitnessPkg     string   `json:"witness_pkg,omitempty"`
	WitnessImports []string `json:"witness_imports,omitempty"`
	WitnessTest    string   `json:"witness_test,omitempty"`
	checked        bool
	confirmed      bool
	output         string
}

type KnownFindings struct {
	Findings []KnownFinding `json:"findings"`
}

func loadKnownFindings(verif string) *KnownFindings {
	kf := &KnownFindings{}
	b, err := os.ReadFile(filepath.Join(verif, "known_findings.json"))
	if err != nil {
		return kf
	}
	if err := json.Unmarshal(b, kf); err != nil {
		fatalf("known_findings.json: %v", err)
	}
	return kf
}

// match: a failed obligation is a known finding only if it is listed by
// property and obligation name and is still open. (Region-restricted
// re-proving is done by the engine through `except` obligations, see
// DESIGN.md section 6.5.)
func (kf *KnownFindings) match(p *Prog, repo, prop string, o *Obligation) *KnownFinding {
	for i := range kf.Findings {
		f := &kf.Findings[i]
		if f.Status == "fixed" {
			continue
		}
		if f.Property == prop && f.Obligation == o.Name {
			if f.WitnessTest == "" {
				return f
			}
			if !f.checked {
				f.checked = true
				f.confirmed, f.output = runWitness(p, repo, f)
			}
			if f.confirmed {
				return f
			}
			return nil // the recorded witness no longer reproduces: this is a different failure
		}
	}
	return nil
}

// matchOther: the obligation is an open known finding of another property (its witness
// still reproduces).
func (kf *KnownFindings) matchOther(p *Prog, repo, prop string, o *Obligation) *KnownFinding {
	for i := range kf.Findings {
		f := &kf.Findings[i]
		if f.Status == "fixed" || f.Property == prop || f.Obligation != o.Name {
			continue
		}
		if f.WitnessTest == "" {
			return f
		}
		if !f.checked {
			f.checked = true
			f.confirmed, f.output = runWitness(p, repo, f)
		}
		if f.confirmed {
			return f
		}
	}
	return nil
}

func runWitness(p *Prog, repo string, f *KnownFinding) (bool, string) {
	var b strings.Builder
	pkgName := f.WitnessPkg[strings.LastIndex(f.WitnessPkg, "/")+1:]
	for _, pk := range p.Pkgs {
		if pk.PkgPath == f.WitnessPkg {
			pkgName = pk.Types.Name()
		}
	}
	fmt.Fprintf(&b, "package %s\n\nimport (\n\t\"fmt\"\n\t\"testing\"\n", pkgName)
	for _, im := range f.WitnessImports {
		fmt.Fprintf(&b, "\t%q\n", im)
	}
	fmt.Fprintf(&b, ")\n\nvar _ = fmt.Sprint\n\nfunc TestGovcReplay(t *testing.T) {\n\tdefer func() {\n\t\tif r := recover(); r != nil {\n\t\t\tfmt.Printf(\"WITNESS-PANIC %%v\\n\", r)\n\t\t}\n\t}()\n%s\n}\n", f.WitnessTest)
	out, _ := runOverlayTest(p, repo, f.WitnessPkg, b.String())
	return strings.Contains(out, "WITNESS-CONFIRMED"), out
}

type ReplayInfo struct {
	Path      string
	Confirmed bool
}

type ReplayFile struct {
	Property   string            `json:"property"`
	Obligation string            `json:"obligation"`
	Function   string            `json:"function"`
	Where      string            `json:"where"`
	Clause     string            `json:"clause"`
	Kind       string            `json:"kind"`
	Status     string            `json:"solver_status"`
	Backend    string            `json:"backend"`
	AllStatus  map[string]string `json:"all_backends,omitempty"`
	Output     string            `json:"solver_output"`
	Model      map[string]string `json:"model,omitempty"`
	Test       string            `json:"generated_test,omitempty"`
	TestOutput string            `json:"test_output,omitempty"`
	Confirmed  bool              `json:"replay_confirmed"`
	Note       string            `json:"note,omitempty"`
	Query      string            `json:"smt_query,omitempty"`
}

func writeReplay(p *Prog, o *Obligation, prop, verif, repo string) ReplayInfo {
	dir := filepath.Join(verif, "replays", prop)
	_ = os.MkdirAll(dir, 0o755)
	rf := &ReplayFile{Property: prop, Obligation: o.Name, Function: o.Func, Where: o.Pos, Clause: o.Desc, Kind: o.Kind,
		Status: o.Res.Status, Backend: o.Res.Backend, AllStatus: o.Res.All, Output: truncate(o.Res.Output, 4000), Model: o.Res.Model}
	if o.QueryFile != "" {
		if b, err := os.ReadFile(o.QueryFile); err == nil {
			rf.Query = truncate(string(b), 60000)
		}
	}
	if o.Res.Status == "sat" {
		tryReplay(p, o, rf, repo)
		// keep the model readable: drop long access paths that the test did not need
		small := map[string]string{}
		for k, v := range rf.Model {
			if len(k) < 160 {
				small[k] = v
			}
		}
		rf.Model = small
	} else {
		rf.Note = "the solver produced no model (" + o.Res.Status + "): obligation undischarged, no failing input found"
	}
	if !rf.Confirmed {
		tryScenario(p, o, rf, repo, verif)
	}
	path := filepath.Join(dir, sanitize(o.Name)+".json")
	b, _ := json.MarshalIndent(rf, "", " ")
	_ = os.WriteFile(path, append(b, '\n'), 0o644)
	return ReplayInfo{Path: path, Confirmed: rf.Confirmed}
}

var scenarioCache = map[string][2]string{}

// tryScenario: when the counterexample lives in ghost state (a stream, a queue log)
// and cannot be turned into a call of the function, the contract may name a scenario
// battery: a test kept under /verif/scenarios that drives the real function with
// adversarial inputs and compares with the reference semantics. It is run only after an
// obligation of the function has failed; a SCENARIO-FAIL line is a concrete failing
// input on the tree under check.
func tryScenario(p *Prog, o *Obligation, rf *ReplayFile, repo, verif string) {
	if o.Ex == nil || o.Ex.fc == nil || o.Ex.fc.Scenario == "" || o.Ex.fn == nil {
		return
	}
	name := o.Ex.fc.Scenario
	res, done := scenarioCache[name]
	if !done {
		var src []byte
		var err error
		for _, d := range []string{filepath.Join(verif, "scenarios"), scenarioDir()} {
			if src, err = os.ReadFile(filepath.Join(d, name+".go.txt")); err == nil {
				break
			}
		}
		if err != nil {
			return
		}
		fn := o.Ex.fn
		for fn.Parent() != nil {
			fn = fn.Parent()
		}
		if fn.Pkg == nil {
			return
		}
		out, rerr := runOverlayTest(p, repo, fn.Pkg.Pkg.Path(), string(src))
		es := ""
		if rerr != nil {
			es = rerr.Error()
		}
		res = [2]string{out, es}
		scenarioCache[name] = res
	}
	out := res[0]
	if strings.Contains(out, "SCENARIO-FAIL") {
		rf.Confirmed = true
		rf.Note = "confirmed on the real code by the scenario battery scenarios/" + name + ".go.txt (a concrete failing input found by driving the function, not the solver's model; see test_output)"
		rf.TestOutput = truncate(out, 6000)
	} else if strings.Contains(out, "SCENARIO-DONE") {
		rf.Note += "; the scenario battery scenarios/" + name + ".go.txt found no failing input"
	} else if res[1] != "" {
		rf.Note += "; the scenario battery did not run: " + truncate(out, 400)
	}
}

func scenarioDir() string {
	exe, err := os.Executable()
	if err != nil {
		return "/verif/scenarios"
	}
	return filepath.Join(filepath.Dir(filepath.Dir(exe)), "scenarios")
}

func writeUnboundReplay(key, prop, verif string) string {
	dir := filepath.Join(verif, "replays", prop)
	_ = os.MkdirAll(dir, 0o755)
	rf := &ReplayFile{Property: prop, Obligation: key + "#bind", Function: key, Kind: "unbound",
		Note: "the contract's target function (or closure anchor) no longer exists in the working tree; its obligations cannot be generated"}
	path := filepath.Join(dir, sanitize(key)+"_unbound.json")
	b, _ := json.MarshalIndent(rf, "", " ")
	_ = os.WriteFile(path, append(b, '\n'), 0o644)
	return path
}

func truncate(s string, n int) string {
	if len(s) <= n {
		return s
	}
	return s[:n] + fmt.Sprintf("... [%d bytes truncated]", len(s)-n)
}

var commonTrusted = []string{
	"go/packages + go/ssa (x/tools v0.29.0) faithfully represent /repo's working tree; the verified text is that SSA, rebuilt every run",
	"memory model of DESIGN.md 3.3: per-field heap arrays, immutable byte strings (element stores into []byte rejected), fresh allocation, interfaces as references with a dynamic type tag",
	"Go int treated as a mathematical integer (no overflow); cap() of a slice is an arbitrary number not below its length",
	"solver answers of z3 4.8.12, z3 5.1.0 and cvc5 1.0.3 (first definite answer in quick tier; in the thorough tier the other solvers get a grace period of 10 s + 10x the time of the first answer to contradict it, and a contradiction is reported as a disagreement)",
	"panic-freedom of functions whose contract has no `safety` clause is assumed at their own sites",
}

func trustedBase(prop string, rr *RunResult) ([]string, []string) {
	tb := append([]string{}, commonTrusted...)
	var as []string
	for _, n := range rr.Notes {
		if strings.HasPrefix(n, "unknown-stdlib") || strings.HasPrefix(n, "uncontracted-call") || strings.HasPrefix(n, "opaque-call") {
			as = append(as, n)
		}
	}
	for _, t := range rr.Trusted {
		as = append(as, "assumed contract (body not verified): "+t)
	}
	if extra, ok := propAssumptions[prop]; ok {
		as = append(as, extra...)
	}
	if extra, ok := propTrusted[prop]; ok {
		tb = append(tb, extra...)
	}
	// the per-property statement of what is assumed and what is not decided
	// (the level_note of the claim in MANIFEST.json)
	if note := manifestNote(prop); note != "" {
		as = append([]string{"claim note (MANIFEST level_note): " + note}, as...)
	}
	// one line per distinct assumption
	seen := map[string]bool{}
	var uniq []string
	for _, a := range as {
		if !seen[a] {
			seen[a] = true
			uniq = append(uniq, a)
		}
	}
	return tb, uniq
}

func manifestNote(prop string) string {
	data, err := os.ReadFile(filepath.Join(flagVerif, "MANIFEST.json"))
	if err != nil {
		data, err = os.ReadFile("/verif/MANIFEST.json")
		if err != nil {
			return ""
		}
	}
	var m struct {
		Checks []struct {
			PropertyID string `json:"property_id"`
			LevelNote  string `json:"level_note"`
		} `json:"checks"`
	}
	if json.Unmarshal(data, &m) != nil {
		return ""
	}
	for _, c := range m.Checks {
		if c.PropertyID == prop {
			return c.LevelNote
		}
	}
	return ""
}

var propAssumptions = map[string][]string{}
var propTrusted = map[string][]string{}
