package main

import (
	"fmt"
	"go/token"
	"go/types"
	"strings"

	"golang.org/x/tools/go/ssa"
)

func cellArr(t types.Type) string { return "CELL" }

// readCell / writeCell: storage of non-struct variables addressed by pointer.
func (e *Exec) readCell(st *State, ref string, t types.Type) Val {
	switch kindOf(t) {
	case KInt:
		return vInt(e.sel(st, "CELL_Int", "Int", ref)).withT(t)
	case KRef:
		selT := e.sel(st, "CELL_Int", "Int", ref)
		if c, ok := e.ldCache[selT]; ok {
			return vRef(c).withT(t)
		}
		d := e.S.Define("ld", "Int", selT)
		e.ldCache[selT] = d
		e.S.Assert(sx("<=", d, st.top))
		e.ptrTypeFact(d, t)
		return vRef(d).withT(t)
	case KBool:
		return vBool(e.sel(st, "CELL_Bool", "Bool", ref)).withT(t)
	case KStr:
		return vStr(e.sel(st, "CELL_String", "String", ref)).withT(t)
	case KBytes:
		return vBytes(e.sel(st, "CELL_Bytes_s", "String", ref), e.sel(st, "CELL_Bytes_n", "Bool", ref)).withT(t)
	case KStruct:
		return e.readAt(st, "H_"+typeKey(t), t, ref) // struct stored under its own type key
	}
	return vUnit()
}

func (e *Exec) writeCell(st *State, ref string, t types.Type, v Val) {
	switch kindOf(t) {
	case KInt, KRef:
		e.upd(st, "CELL_Int", "Int", ref, v.t())
	case KBool:
		e.upd(st, "CELL_Bool", "Bool", ref, v.t())
	case KStr:
		e.upd(st, "CELL_String", "String", ref, v.t())
	case KBytes:
		v = coerce(v, t)
		e.upd(st, "CELL_Bytes_s", "String", ref, v.A[0])
		e.upd(st, "CELL_Bytes_n", "Bool", ref, v.A[1])
	case KStruct:
		e.writeAt(st, "H_"+typeKey(t), t, ref, v)
	}
}

// structObjRead reads a whole struct value stored as an object.
func (e *Exec) readStructObj(st *State, ref string, t types.Type) Val {
	stt := t.Underlying().(*types.Struct)
	v := Val{K: KStruct, T: t}
	for i := 0; i < stt.NumFields(); i++ {
		v.F = append(v.F, e.readAt(st, fieldArrName(t, stt.Field(i).Name()), stt.Field(i).Type(), ref))
	}
	return v
}

func (e *Exec) writeStructObj(st *State, ref string, t types.Type, v Val) {
	stt := t.Underlying().(*types.Struct)
	for i := 0; i < stt.NumFields(); i++ {
		e.writeAt(st, fieldArrName(t, stt.Field(i).Name()), stt.Field(i).Type(), ref, v.F[i])
	}
}

func (e *Exec) loadAddr(st *State, a *Addr) Val {
	switch a.kind {
	case aField:
		v := e.readAt(st, fieldArrName(a.T, a.path), a.ft, a.base)
		if v.K == KBytes && e.ownership() {
			// identity of the buffer held in the field: the one stored earlier in this call,
			// or a buffer that existed before the call (and may have been handed out)
			key := fieldArrName(a.T, a.path) + "@" + a.base
			if id, ok := st.fieldIdent[key]; ok {
				v.Ident = id
			} else {
				v.Ident = "heap:" + key
			}
		}
		return v
	case aByte:
		ch := e.S.Define("byte", "Int", sx("str.to_code", sx("str.at", a.base, a.idx)))
		e.S.Assert(sx("<=", ch, "255"))
		return vInt(ch).withT(a.ft)
	case aElem:
		n, srt := e.seqArr(a.ft)
		s := e.sel(st, n, srt, a.base)
		ev := e.elemFromTerm(sx("select", s, a.idx), a.ft, st)
		ev.Shared = a.shared
		return ev
	case aLocal:
		la := st.larr[a.larr]
		if la == nil {
			e.unsupported("%s: local array no longer tracked", e.name)
			return e.freshVal("larr", a.ft, kindOf(a.ft))
		}
		return la.elems[a.li]
	case aCell:
		return e.readCell(st, a.base, a.ft)
	case aGlobal:
		if gd := e.P.CS.Globals[a.gname]; gd != nil {
			env := &Env{e: e, vars: map[string]Val{}, st: st, ctx: "global " + a.gname}
			return castTo(e.evalExpr(env, gd.Expr), kindOf(a.ft), a.ft)
		}
		e.note("global %s read without a declared value (unconstrained)", a.gname)
		return e.readAt(st, "G_"+sanitize(a.gname), a.ft, "0")
	}
	return vUnit()
}

func (e *Exec) storeAddr(st *State, a *Addr, v Val) {
	v = coerce(v, a.ft)
	switch a.kind {
	case aField:
		if v.K == KBytes && e.ownership() {
			st.fieldIdent[fieldArrName(a.T, a.path)+"@"+a.base] = v.Ident
		}
		e.writeAt(st, fieldArrName(a.T, a.path), a.ft, a.base, v)
	case aElem:
		n, srt := e.seqArr(a.ft)
		cur := e.sel(st, n, srt, a.base)
		e.upd(st, n, srt, a.base, sx("store", cur, a.idx, elemTerm(v)))
	case aLocal:
		la := st.larr[a.larr]
		if la == nil || la.sliced {
			e.unsupported("%s: store into a local array after it was sliced", e.name)
			return
		}
		la.elems[a.li] = v
	case aCell:
		e.writeCell(st, a.base, a.ft, v)
	case aGlobal:
		if gd := e.P.CS.Globals[a.gname]; gd != nil && e.fn != nil && e.fn.Name() != "init" {
			e.oblige(st, "global:"+gd.Name+":immutable", "discipline", gd.Tags, "false", "store to global "+a.gname+" declared immutable", 0)
		}
		e.writeAt(st, "G_"+sanitize(a.gname), a.ft, "0", v)
	}
}

// addrOf resolves a pointer-typed SSA value to an address descriptor.
func (e *Exec) addrOf(fr *Frame, v ssa.Value, st *State) *Addr {
	if a, ok := fr.addrs[v]; ok {
		return a
	}
	if g, ok := v.(*ssa.Global); ok {
		return &Addr{kind: aGlobal, gname: g.Pkg.Pkg.Path() + "." + g.Name(), ft: g.Type().(*types.Pointer).Elem()}
	}
	// a pointer value: object (struct) or cell
	pv := e.val(fr, v, st)
	pt, ok := v.Type().Underlying().(*types.Pointer)
	if !ok {
		e.unsupported("%s: dereference of non-pointer %s", e.name, v)
		return &Addr{kind: aCell, base: pv.t(), ft: types.Typ[types.Int]}
	}
	return &Addr{kind: aCell, base: pv.t(), ft: pt.Elem()}
}

// execInstr returns false when the path ends (return/panic).
func (e *Exec) execInstr(fr *Frame, st *State, in ssa.Instruction) bool {
	switch x := in.(type) {
	case *ssa.DebugRef:
		return true
	case *ssa.Alloc:
		t := x.Type().(*types.Pointer).Elem()
		if arr, ok := t.Underlying().(*types.Array); ok {
			la := &LocalArr{elemT: arr.Elem()}
			for i := int64(0); i < arr.Len(); i++ {
				la.elems = append(la.elems, zeroVal(arr.Elem()))
			}
			st.larr[x] = la
			return true
		}
		if stt, ok := t.Underlying().(*types.Struct); ok && !isOpaqueStruct(t) {
			r := e.alloc(st, "new_"+typeKey(t), types.NewPointer(t))
			for i := 0; i < stt.NumFields(); i++ {
				e.assumeZero(st, fieldArrName(t, stt.Field(i).Name()), stt.Field(i).Type(), r)
			}
			fr.vals[x] = vRef(r).withT(x.Type())
			return true
		}
		r := e.alloc(st, "cell_"+sanitize(x.Comment), nil)
		a := &Addr{kind: aCell, base: r, ft: t}
		e.storeAddr(st, a, zeroVal(t))
		fr.addrs[x] = a
		return true
	case *ssa.FieldAddr:
		stt, T := structOf(x.X.Type())
		f := stt.Field(x.Field)
		if ba, ok := fr.addrs[x.X]; ok && ba.kind == aField {
			fr.addrs[x] = &Addr{kind: aField, base: ba.base, T: ba.T, path: ba.path + "." + f.Name(), ft: f.Type()}
			return true
		}
		base := e.val(fr, x.X, st)
		e.safety(fr, st, in, "nil", sNot(sEq(base.t(), "0")), "nil dereference in field access ."+f.Name())
		fr.addrs[x] = &Addr{kind: aField, base: base.t(), T: T, path: f.Name(), ft: f.Type()}
		return true
	case *ssa.Field:
		sv := e.val(fr, x.X, st)
		fr.vals[x] = sv.F[x.Field]
		return true
	case *ssa.IndexAddr:
		idx := e.val(fr, x.Index, st).t()
		if pt, ok := x.X.Type().Underlying().(*types.Pointer); ok {
			// pointer to array: local literal
			al, ok := x.X.(*ssa.Alloc)
			c, isConst := x.Index.(*ssa.Const)
			if ok && isConst && st.larr[al] != nil {
				fr.addrs[x] = &Addr{kind: aLocal, larr: al, li: int(c.Int64()), ft: pt.Elem().Underlying().(*types.Array).Elem()}
				return true
			}
			e.unsupported("%s: index into array pointer %s", e.name, x)
			return true
		}
		sl := x.X.Type().Underlying().(*types.Slice)
		xv := e.val(fr, x.X, st)
		if isByteSlice(x.X.Type()) {
			e.safety(fr, st, in, "index", sAnd(sx("<=", "0", idx), sx("<", idx, sx("str.len", xv.A[0]))), "index out of range")
			fr.addrs[x] = &Addr{kind: aByte, base: xv.A[0], idx: idx, ft: sl.Elem(), T: x.X.Type()}
			return true
		}
		e.safety(fr, st, in, "index", sAnd(sx("<=", "0", idx), sx("<", idx, e.seqLen(st, xv.t()))), "index out of range")
		fr.addrs[x] = &Addr{kind: aElem, base: xv.t(), idx: idx, ft: sl.Elem(), shared: xv.Shared}
		return true
	case *ssa.Index:
		// array value or string index
		xv := e.val(fr, x.X, st)
		idx := e.val(fr, x.Index, st).t()
		if xv.K == KStr {
			e.safety(fr, st, in, "index", sAnd(sx("<=", "0", idx), sx("<", idx, sx("str.len", xv.t()))), "index out of range")
			fr.vals[x] = vInt(sx("str.to_code", sx("str.at", xv.t(), idx))).withT(x.Type())
			return true
		}
		e.unsupported("%s: Index on %v", e.name, x.X.Type())
		fr.vals[x] = e.freshVal("idx", x.Type(), kindOf(x.Type()))
		return true
	case *ssa.Lookup:
		xv := e.val(fr, x.X, st)
		if xv.K == KStr {
			idx := e.val(fr, x.Index, st).t()
			e.safety(fr, st, in, "index", sAnd(sx("<=", "0", idx), sx("<", idx, sx("str.len", xv.t()))), "index out of range")
			v := vInt(e.S.Define("ch", "Int", sx("str.to_code", sx("str.at", xv.t(), idx)))).withT(x.Type())
			fr.vals[x] = v
			return true
		}
		e.execMapLookup(fr, st, x)
		return true
	case *ssa.UnOp:
		return e.execUnOp(fr, st, x)
	case *ssa.Store:
		v := e.val(fr, x.Val, st)
		if a, ok := fr.addrs[x.Addr]; ok && a.kind == aByte {
			e.unsupported("%s: element store into []byte", e.name)
			return true
		}
		a := e.addrOf(fr, x.Addr, st)
		if a.kind == aCell {
			if _, tracked := fr.addrs[x.Addr]; !tracked {
				e.safety(fr, st, in, "store", sNot(sEq(a.base, "0")), "store through nil pointer")
				if stt, T := structOf(x.Addr.Type()); stt != nil && !isOpaqueStruct(T) {
					e.writeStructObj(st, a.base, T, v)
					return true
				}
			}
		}
		e.disciplineAccess(fr, st, in, a, true)
		e.storeAddr(st, a, v)
		return true
	case *ssa.BinOp:
		fr.vals[x] = e.execBinOp(fr, st, x)
		return true
	case *ssa.Phi:
		return true
	case *ssa.If:
		c := e.val(fr, x.Cond, st).t()
		if c != "true" && c != "false" {
			e.conds = append(e.conds, c)
		}
		return true
	case *ssa.Jump:
		return true
	case *ssa.Return:
		var vals []Val
		for _, r := range x.Results {
			vals = append(vals, e.val(fr, r, st))
		}
		e.doReturn(fr, st, x, vals)
		return false
	case *ssa.Panic:
		if fr.top && e.fc.MayPanic {
			return false
		}
		if len(e.fc.Safety) > 0 {
			e.oblige(st, e.ordinalName(fr, in, "panic"), "safety", e.fc.Safety, "false", "explicit panic reachable", in.Pos())
		}
		return false
	case *ssa.Convert:
		fr.vals[x] = e.execConvert(fr, st, x)
		return true
	case *ssa.ChangeType:
		v := e.val(fr, x.X, st)
		v.T = x.Type()
		fr.vals[x] = v
		return true
	case *ssa.ChangeInterface:
		v := e.val(fr, x.X, st)
		v.T = x.Type()
		fr.vals[x] = v
		return true
	case *ssa.MakeInterface:
		fr.vals[x] = e.makeInterface(st, e.val(fr, x.X, st), x.X.Type(), x.Type())
		return true
	case *ssa.TypeAssert:
		e.execTypeAssert(fr, st, x)
		return true
	case *ssa.Extract:
		t := e.val(fr, x.Tuple, st)
		if x.Index < len(t.F) {
			fr.vals[x] = t.F[x.Index]
		} else {
			e.unsupported("%s: extract %d of %v", e.name, x.Index, x.Tuple)
			fr.vals[x] = e.freshVal("ext", x.Type(), kindOf(x.Type()))
		}
		return true
	case *ssa.Slice:
		fr.vals[x] = e.execSlice(fr, st, x)
		return true
	case *ssa.MakeSlice:
		ln := e.val(fr, x.Len, st).t()
		sl := x.Type().Underlying().(*types.Slice)
		{
			// make panics on a negative length, on len > cap and on a size beyond the
			// allocator's limit (2^48 bytes on 64-bit platforms)
			cp := e.val(fr, x.Cap, st).t()
			esz := int64(8)
			if sz := (&types.StdSizes{WordSize: 8, MaxAlign: 8}).Sizeof(sl.Elem()); sz > 0 {
				esz = sz
			}
			e.safety(fr, st, in, "makeslice", sAnd(sx("<=", "0", ln), sx("<=", ln, cp), sx("<=", sx("*", cp, sInt(esz)), "281474976710656")), "make: length/capacity out of range")
		}
		if isByteSlice(x.Type()) {
			s := e.S.Fresh("mk", "String")
			e.S.Assert(sEq(sx("str.len", s), ln))
			fr.vals[x] = vBytes(s, "false").withT(x.Type())
			return true
		}
		r := e.alloc(st, "mkslice", nil)
		e.setSeq(st, r, sl.Elem(), constArr(elemSort(sl.Elem())), ln)
		// zero-length slices are fully known
		fr.vals[x] = vRef(r).withT(x.Type())
		return true
	case *ssa.MakeClosure:
		fn := x.Fn.(*ssa.Function)
		r := e.alloc(st, "clo_"+sanitize(fn.Name()), nil)
		e.S.Assert(sEq(sx("typeof", r), sInt(int64(2000000+fnID(e.P, fn)))))
		v := vRef(r).withT(x.Type())
		for _, b := range x.Bindings {
			v.Elems = append(v.Elems, e.val(fr, b, st))
		}
		fr.vals[x] = v
		e.closures[r] = closureInfo{fn, v.Elems}
		return true
	case *ssa.MakeMap:
		r := e.alloc(st, "map", nil)
		e.initMap(st, r, x.Type())
		fr.vals[x] = vRef(r).withT(x.Type())
		return true
	case *ssa.MapUpdate:
		e.execMapUpdate(fr, st, x)
		return true
	case *ssa.MakeChan:
		r := e.alloc(st, "chan", nil)
		fr.vals[x] = vRef(r).withT(x.Type())
		return true
	case *ssa.Call:
		v := e.execCall(fr, st, x, x.Common())
		if x.Type() != nil {
			fr.vals[x] = v
		}
		return st.reach != "false"
	case *ssa.Defer:
		st.defers = append(st.defers, x)
		return true
	case *ssa.RunDefers:
		for i := len(st.defers) - 1; i >= 0; i-- {
			e.execCall(fr, st, st.defers[i], st.defers[i].Common())
		}
		st.defers = nil
		return true
	case *ssa.Go:
		e.execGo(fr, st, x)
		return true
	case *ssa.Select:
		e.execSelect(fr, st, x)
		return true
	case *ssa.Send:
		e.execSend(fr, st, x)
		return true
	case *ssa.Range:
		fr.vals[x] = vRef(e.S.Fresh("rangeiter", "Int"))
		e.unsupported("%s: range over map/string", e.name)
		return true
	case *ssa.Next:
		fr.vals[x] = e.freshVal("next", x.Type(), KTuple)
		return true
	}
	e.unsupported("%s: instruction %T", e.name, in)
	if v, ok := in.(ssa.Value); ok {
		fr.vals[v] = e.freshVal("unk", v.Type(), kindOf(v.Type()))
	}
	return true
}

type closureInfo struct {
	fn    *ssa.Function
	binds []Val
}

func (e *Exec) assumeZero(st *State, name string, ft types.Type, idx string) {
	switch kindOf(ft) {
	case KInt, KRef:
		e.S.Assert(sEq(e.sel(st, name, "Int", idx), "0"))
	case KBool:
		e.S.Assert(sEq(e.sel(st, name, "Bool", idx), "false"))
	case KStr:
		e.S.Assert(sEq(e.sel(st, name, "String", idx), `""`))
	case KBytes:
		e.S.Assert(sEq(e.sel(st, name+"_s", "String", idx), `""`))
		e.S.Assert(e.sel(st, name+"_n", "Bool", idx))
	case KStruct:
		stt := ft.Underlying().(*types.Struct)
		for i := 0; i < stt.NumFields(); i++ {
			e.assumeZero(st, name+"."+stt.Field(i).Name(), stt.Field(i).Type(), idx)
		}
	}
}

func (e *Exec) execUnOp(fr *Frame, st *State, x *ssa.UnOp) bool {
	switch x.Op {
	case token.MUL: // load
		if fv, isFV := x.X.(*ssa.FreeVar); isFV && fr.top && !storedTo(fr.fn, fv) {
			// a captured variable that this closure never assigns: one value for the whole body
			if v, ok := e.fvDeref[fv]; ok {
				fr.vals[x] = v
				return true
			}
			pv := e.val(fr, x.X, st)
			pt := x.X.Type().Underlying().(*types.Pointer)
			if _, isStruct := pt.Elem().Underlying().(*types.Struct); !isStruct || isOpaqueStruct(pt.Elem()) {
				v := e.readCell(st, pv.t(), pt.Elem())
				v = e.nameVal("fv_"+fv.Name()+"_val", v, pt.Elem())
				e.fvDeref[fv] = v
				fr.vals[x] = v
				return true
			}
		}
		if _, ok := fr.addrs[x.X]; !ok {
			if _, isG := x.X.(*ssa.Global); !isG {
				// pointer value
				pv := e.val(fr, x.X, st)
				pt := x.X.Type().Underlying().(*types.Pointer)
				e.safety(fr, st, x, "deref", sNot(sEq(pv.t(), "0")), "nil pointer dereference")
				if _, ok := pt.Elem().Underlying().(*types.Struct); ok && !isOpaqueStruct(pt.Elem()) {
					fr.vals[x] = e.readStructObj(st, pv.t(), pt.Elem())
					return true
				}
				fr.vals[x] = e.readCell(st, pv.t(), pt.Elem())
				return true
			}
		}
		a := e.addrOf(fr, x.X, st)
		e.disciplineAccess(fr, st, x, a, false)
		v := e.loadAddr(st, a)
		if x.CommaOk {
			e.unsupported("%s: comma-ok load", e.name)
		}
		fr.vals[x] = v.withT(x.Type())
		return true
	case token.NOT:
		fr.vals[x] = vBool(sNot(e.val(fr, x.X, st).t())).withT(x.Type())
		return true
	case token.SUB:
		fr.vals[x] = vInt(sx("-", e.val(fr, x.X, st).t())).withT(x.Type())
		return true
	case token.ARROW:
		e.execRecv(fr, st, x)
		return true
	}
	e.unsupported("%s: unary %v", e.name, x.Op)
	fr.vals[x] = e.freshVal("un", x.Type(), kindOf(x.Type()))
	return true
}

func goDiv(a, b string) string {
	// Go truncated division on mathematical integers
	return sIte(sx(">=", a, "0"),
		sIte(sx(">", b, "0"), sx("div", a, b), sx("-", sx("div", a, sx("-", b)))),
		sIte(sx(">", b, "0"), sx("-", sx("div", sx("-", a), b)), sx("div", sx("-", a), sx("-", b))))
}

func goRem(a, b string) string {
	return sx("-", a, sx("*", b, goDiv(a, b)))
}

func isNonNegConst(t string) bool {
	return len(t) > 0 && t[0] >= '0' && t[0] <= '9'
}

func (e *Exec) execBinOp(fr *Frame, st *State, x *ssa.BinOp) Val {
	a := e.val(fr, x.X, st)
	b := e.val(fr, x.Y, st)
	t := x.Type()
	switch x.Op {
	case token.ADD:
		if a.K == KStr {
			return vStr(sConcat(a.t(), b.t())).withT(t)
		}
		return e.wrap(vInt(sx("+", a.t(), b.t())), t)
	case token.SUB:
		return e.wrap(vInt(sx("-", a.t(), b.t())), t)
	case token.MUL:
		return e.wrap(vInt(sx("*", a.t(), b.t())), t)
	case token.QUO, token.REM:
		e.safety(fr, st, x, "div", sNot(sEq(b.t(), "0")), "division by zero")
		simple := isNonNegConst(b.t())
		if x.Op == token.QUO {
			if simple {
				return vInt(sIte(sx(">=", a.t(), "0"), sx("div", a.t(), b.t()), sx("-", sx("div", sx("-", a.t()), b.t())))).withT(t)
			}
			return vInt(goDiv(a.t(), b.t())).withT(t)
		}
		if simple {
			return vInt(sIte(sx(">=", a.t(), "0"), sx("mod", a.t(), b.t()), sx("-", sx("mod", sx("-", a.t()), b.t())))).withT(t)
		}
		return vInt(goRem(a.t(), b.t())).withT(t)
	case token.EQL, token.NEQ:
		var c string
		if a.K == KStruct || b.K == KStruct {
			c = valEq(a, b)
		} else {
			c = valEqLoose(a, b)
		}
		if x.Op == token.NEQ {
			c = sNot(c)
		}
		return vBool(c).withT(t)
	case token.LSS, token.LEQ, token.GTR, token.GEQ:
		op := map[token.Token]string{token.LSS: "<", token.LEQ: "<=", token.GTR: ">", token.GEQ: ">="}[x.Op]
		if a.K == KStr {
			sop := map[token.Token]string{token.LSS: "str.<", token.LEQ: "str.<="}[x.Op]
			if sop == "" {
				sop = map[token.Token]string{token.GTR: "str.<", token.GEQ: "str.<="}[x.Op]
				return vBool(sx(sop, b.t(), a.t())).withT(t)
			}
			return vBool(sx(sop, a.t(), b.t())).withT(t)
		}
		return vBool(sx(op, a.t(), b.t())).withT(t)
	case token.LAND, token.AND:
		if a.K == KBool {
			return vBool(sAnd(a.t(), b.t())).withT(t)
		}
	case token.LOR, token.OR:
		if a.K == KBool {
			return vBool(sOr(a.t(), b.t())).withT(t)
		}
	}
	e.unsupported("%s: binary operator %v on %v", e.name, x.Op, x.X.Type())
	return e.freshVal("bin", t, kindOf(t))
}

// valEqLoose compares values where one side may be the nil constant.
func valEqLoose(a, b Val) string {
	if a.K == KBytes && b.K == KRef {
		return a.A[1]
	}
	if a.K == KRef && b.K == KBytes {
		return b.A[1]
	}
	if a.K == KBytes && b.K == KBytes {
		// Go only allows comparison of a slice with nil: the result is the other side's nil flag
		if b.A[1] == "true" {
			return a.A[1]
		}
		if a.A[1] == "true" {
			return b.A[1]
		}
		return sAnd(sEq(a.A[0], b.A[0]), sEq(a.A[1], b.A[1]))
	}
	return valEq(a, b)
}

// wrap applies modular arithmetic for byte-sized results only; other integer
// types are mathematical (stated assumption).
func (e *Exec) wrap(v Val, t types.Type) Val {
	if b, ok := t.Underlying().(*types.Basic); ok && b.Kind() == types.Uint8 {
		return vInt(sx("mod", v.t(), "256")).withT(t)
	}
	return v.withT(t)
}

func (e *Exec) execConvert(fr *Frame, st *State, x *ssa.Convert) Val {
	v := e.val(fr, x.X, st)
	from, to := x.X.Type(), x.Type()
	fk, tk := kindOf(from), kindOf(to)
	switch {
	case fk == KStr && tk == KBytes:
		return vBytes(v.t(), "false").withT(to)
	case fk == KBytes && tk == KStr:
		return vStr(v.A[0]).withT(to)
	case fk == KInt && tk == KInt:
		if b, ok := to.Underlying().(*types.Basic); ok && b.Kind() == types.Uint8 {
			if fb, ok := from.Underlying().(*types.Basic); ok && fb.Kind() == types.Uint8 {
				return v.withT(to)
			}
			return vInt(sx("mod", v.t(), "256")).withT(to)
		}
		return v.withT(to)
	case fk == KStr && tk == KStr:
		return v.withT(to)
	case fk == KInt && tk == KStr:
		// string(rune)
		return vStr(sx("str.from_code", v.t())).withT(to)
	}
	e.unsupported("%s: conversion %v -> %v", e.name, from, to)
	return e.freshVal("conv", to, tk)
}

func (e *Exec) makeInterface(st *State, v Val, from, to types.Type) Val {
	if _, ok := from.Underlying().(*types.Pointer); ok {
		r := v
		r.T = to
		return r
	}
	switch from.Underlying().(type) {
	case *types.Signature, *types.Map, *types.Chan, *types.Interface:
		r := v
		r.T = to
		return r
	}
	if sl, ok := from.Underlying().(*types.Slice); ok && !isByteSlice(from) {
		_ = sl
		// non-byte slices are references already; remember the dynamic type
		b := e.alloc(st, "box", from)
		e.upd(st, "BOX_Int", "Int", b, v.t())
		r := vRef(b).withT(to)
		bv := v
		r.Boxed = &bv
		return r
	}
	b := e.alloc(st, "box", from)
	switch v.K {
	case KInt:
		e.upd(st, "BOX_Int", "Int", b, v.t())
	case KBool:
		e.upd(st, "BOX_Bool", "Bool", b, v.t())
	case KStr:
		e.upd(st, "BOX_String", "String", b, v.t())
	case KBytes:
		e.upd(st, "BOX_Bytes_s", "String", b, v.A[0])
		e.upd(st, "BOX_Bytes_n", "Bool", b, v.A[1])
	case KStruct:
		e.writeStructObj(st, b, from, v)
	}
	r := vRef(b).withT(to)
	bv := v
	r.Boxed = &bv
	return r
}

func (e *Exec) unbox(st *State, ref string, t types.Type) Val {
	switch kindOf(t) {
	case KInt:
		return vInt(e.sel(st, "BOX_Int", "Int", ref)).withT(t)
	case KBool:
		return vBool(e.sel(st, "BOX_Bool", "Bool", ref)).withT(t)
	case KStr:
		return vStr(e.sel(st, "BOX_String", "String", ref)).withT(t)
	case KBytes:
		return vBytes(e.sel(st, "BOX_Bytes_s", "String", ref), e.sel(st, "BOX_Bytes_n", "Bool", ref)).withT(t)
	case KStruct:
		return e.readStructObj(st, ref, t)
	case KRef:
		if _, ok := t.Underlying().(*types.Slice); ok {
			return vRef(e.sel(st, "BOX_Int", "Int", ref)).withT(t)
		}
	}
	return vRef(ref).withT(t)
}

func (e *Exec) execTypeAssert(fr *Frame, st *State, x *ssa.TypeAssert) {
	v := e.val(fr, x.X, st)
	at := x.AssertedType
	var ok string
	var res Val
	if _, isIface := at.Underlying().(*types.Interface); isIface {
		// assertion to an interface type: succeeds for non-nil values whose
		// dynamic type implements it; dynamic method sets are not modelled
		impl := e.S.Fresh("implements", "Bool")
		ok = sAnd(sNot(sEq(v.t(), "0")), impl)
		res = vRef(v.t()).withT(at)
		if !x.CommaOk {
			e.unsupported("%s: unchecked assertion to interface type %v", e.name, at)
		}
	} else {
		ok = sEq(sx("typeof", v.t()), sInt(int64(e.P.tagOf(at))))
		if _, isPtr := at.Underlying().(*types.Pointer); isPtr {
			res = vRef(v.t()).withT(at)
		} else if _, isFn := at.Underlying().(*types.Signature); isFn {
			res = vRef(v.t()).withT(at)
			ok = sNot(sEq(v.t(), "0")) // function-typed payloads: dynamic type not tracked through pools
			if v.Boxed != nil {
				res = *v.Boxed
			}
		} else {
			res = e.unbox(st, v.t(), at)
			if v.Boxed != nil && v.Boxed.K == res.K {
				res = *v.Boxed
				res.T = at
			}
		}
	}
	if x.CommaOk {
		okv := e.S.Define("tok", "Bool", ok)
		// on failure the value is the zero value
		z := zeroVal(at)
		fr.vals[x] = Val{K: KTuple, T: x.Type(), F: []Val{valIte(okv, res, z), vBool(okv)}}
		return
	}
	e.safety(fr, st, x, "assert", ok, fmt.Sprintf("type assertion to %v may fail", at))
	fr.vals[x] = res
}

func (e *Exec) execSlice(fr *Frame, st *State, x *ssa.Slice) Val {
	// slice of pointer-to-array (literal)
	if pt, ok := x.X.Type().Underlying().(*types.Pointer); ok {
		al, ok := x.X.(*ssa.Alloc)
		arr := pt.Elem().Underlying().(*types.Array)
		la := st.larr[al]
		if ok && la != nil && x.Low == nil && x.High != nil {
			// arr[:h] with a constant h
			if hc, isC := x.High.(*ssa.Const); isC && int(hc.Int64()) <= len(la.elems) {
				cp := *la
				cp.elems = append([]Val{}, la.elems[:hc.Int64()]...)
				la = &cp
				x = &ssa.Slice{X: x.X}
			}
		}
		if !ok || la == nil || x.Low != nil || x.High != nil {
			e.unsupported("%s: partial slice of array pointer", e.name)
			return e.freshVal("sl", x.Type(), kindOf(x.Type()))
		}
		la.sliced = true
		if isByteArray(pt.Elem()) {
			var parts []string
			for _, el := range la.elems {
				parts = append(parts, byteToStr(el.t()))
			}
			return vBytes(sConcat(parts...), "false").withT(x.Type())
		}
		r := e.alloc(st, "lit", nil)
		var ts []string
		for _, el := range la.elems {
			ts = append(ts, elemTerm(el))
		}
		e.setSeq(st, r, arr.Elem(), seqLit(elemSort(arr.Elem()), ts), sInt(int64(len(ts))))
		v := vRef(r).withT(x.Type())
		v.Elems = append([]Val{}, la.elems...)
		return v
	}
	xv := e.val(fr, x.X, st)
	lo := "0"
	if x.Low != nil {
		lo = e.val(fr, x.Low, st).t()
	}
	if xv.K == KStr || xv.K == KBytes {
		ln := sx("str.len", xv.A[0])
		hi := ln
		if x.High != nil {
			hi = e.val(fr, x.High, st).t()
		}
		e.safety(fr, st, x, "slice", sAnd(sx("<=", "0", lo), sx("<=", lo, hi), sx("<=", hi, ln)), "slice bounds out of range (capacity treated as length)")
		sub := e.S.Define("sub", "String", sx("str.substr", xv.A[0], lo, sx("-", hi, lo)))
		if xv.K == KStr {
			return vStr(sub).withT(x.Type())
		}
		return vBytes(sub, xv.A[1]).withT(x.Type())
	}
	sl := x.X.Type().Underlying().(*types.Slice)
	ln := e.seqLen(st, xv.t())
	hi := ln
	if x.High != nil {
		hi = e.val(fr, x.High, st).t()
	}
	e.safety(fr, st, x, "slice", sAnd(sx("<=", "0", lo), sx("<=", lo, hi), sx("<=", hi, ln)), "slice bounds out of range (capacity treated as length)")
	if x.Low == nil && x.High == nil {
		return xv.withT(x.Type())
	}
	r := e.alloc(st, "subslice", nil)
	if lo == "0" {
		// a prefix shares the element array; only the length changes (modelled as a copy)
		e.setSeq(st, r, sl.Elem(), e.seqOf(st, xv.t(), sl.Elem()), hi)
	} else {
		e.unsupported("%s: sub-slice with a non-zero lower bound of a non-byte slice", e.name)
		e.setSeq(st, r, sl.Elem(), e.S.Fresh("subseq", "(Array Int "+elemSort(sl.Elem())+")"), sx("-", hi, lo))
	}
	e.note("%s: sub-slice of a non-byte slice is modelled as a copy (aliasing with the original not tracked)", e.name)
	return vRef(r).withT(x.Type())
}

func byteToStr(t string) string {
	// constant bytes become literals
	if n, ok := smtIntToGo(t); ok && n >= 0 && n < 256 {
		return sStr(string([]byte{byte(n)}))
	}
	return sx("str.from_code", t)
}

func (e *Exec) doReturn(fr *Frame, st *State, ret *ssa.Return, vals []Val) {
	if !fr.top {
		fr.rets = append(fr.rets, retInfo{st, vals})
		return
	}
	e.retCount++
	e.checkPosts(fr, st, ret, vals)
}

func lastSeg(s string) string {
	if i := strings.LastIndex(s, "."); i >= 0 {
		return s[i+1:]
	}
	return s
}

func storedTo(fn *ssa.Function, fv *ssa.FreeVar) bool {
	for _, b := range fn.Blocks {
		for _, in := range b.Instrs {
			if st, ok := in.(*ssa.Store); ok && st.Addr == fv {
				return true
			}
		}
	}
	return false
}
