package main

import (
	"regexp"
	"encoding/json"
	"flag"
	"fmt"
	"os"
	"path/filepath"
	"sort"
	"strconv"
	"strings"
	"sync"
	"time"
)

var (
	flagRepo  = "/repo"
	flagVerif = "/verif"
)

func main() {
	if len(os.Args) < 2 {
		fmt.Fprintln(os.Stderr, "usage: govc check|list|dump|replay ...")
		os.Exit(2)
	}
	switch os.Args[1] {
	case "check":
		cmdCheck(os.Args[2:])
	case "list":
		cmdList(os.Args[2:])
	case "dump":
		cmdDump(os.Args[2:])
	case "uncontracted":
		// functions of the module that no obligation is generated from (for the status table)
		p := setup("/repo")
		for _, k := range sortedKeys(p.FnByKey) {
			fn := p.FnByKey[k]
			if len(fn.Blocks) == 0 || strings.HasSuffix(p.SSA.Fset.Position(fn.Pos()).Filename, "_test.go") {
				continue
			}
			if p.contractFor(fn) == nil && !p.refined(fn) {
				fmt.Println(k)
			}
		}
	default:
		fmt.Fprintln(os.Stderr, "unknown command", os.Args[1])
		os.Exit(2)
	}
}

var loadPatterns = []string{".", "./fix/...", "./session/...", "./storages/...", "./utils/...", "./generator/..."}

func setup(repo string) *Prog {
	p := loadProg(repo, loadPatterns)
	lock := os.Getenv("GOVC_CONTRACT_LOCK")
	if lock == "" {
		if exe, err := os.Executable(); err == nil {
			lock = filepath.Join(filepath.Dir(filepath.Dir(exe)), "contracts")
		}
	}
	if lock == "none" {
		lock = ""
	}
	p.CS = LoadContracts(repo, modPath, lock)
	for _, n := range p.CS.LockNotes {
		fmt.Fprintln(os.Stderr, "govc: "+n)
	}
	return p
}

func cmdList(args []string) {
	fs := flag.NewFlagSet("list", flag.ExitOnError)
	prop := fs.String("prop", "", "property id")
	repo := fs.String("repo", flagRepo, "repository")
	fs.Parse(args)
	p := setup(*repo)
	rr := generate(p, *prop, false)
	for _, o := range rr.Obls {
		if *prop == "" || contains(o.Props, *prop) {
			fmt.Printf("%-80s %-10s %s\n", o.Name, strings.Join(o.Props, ","), o.Pos)
		}
	}
	for _, u := range rr.Unsupported {
		fmt.Println("UNSUPPORTED", u)
	}
	for _, u := range rr.Unbound {
		fmt.Println("UNBOUND", u)
	}
	for _, u := range rr.Notes {
		fmt.Println("NOTE", u)
	}
}

func cmdDump(args []string) {
	fs := flag.NewFlagSet("dump", flag.ExitOnError)
	name := fs.String("obl", "", "obligation name (substring)")
	full := fs.Bool("full", false, "no cone-of-influence slicing")
	repo := fs.String("repo", flagRepo, "repository")
	fs.Parse(args)
	p := setup(*repo)
	rr := generate(p, "", false)
	for _, o := range rr.Obls {
		if strings.Contains(o.Name, *name) {
			gv := o.Inputs
			if o.Ex != nil && len(o.Ex.replayInputs) > 0 {
				gv = o.Ex.replayTerms(o)
			}
			if *full {
				fmt.Printf("; ---- %s\n%s\n", o.Name, o.Script.RenderFull(o.N, o.Hyp, o.Goal, gv))
			} else {
				fmt.Printf("; ---- %s\n%s\n", o.Name, o.Script.Render(o.N, o.Hyp, o.Goal, gv))
			}
		}
	}
}

type Sample struct {
	Obligation string  `json:"obligation"`
	Kind       string  `json:"kind"`
	Function   string  `json:"function"`
	Where      string  `json:"where,omitempty"`
	Clause     string  `json:"clause,omitempty"`
	SMTBytes   int     `json:"smt_bytes"`
	Answer     string  `json:"answer"`
	Backend    string  `json:"backend"`
	TimeS      float64 `json:"time_s"`
}

func cmdCheck(args []string) {
	fs := flag.NewFlagSet("check", flag.ExitOnError)
	prop := fs.String("prop", "", "property id")
	tier := fs.String("tier", "quick", "quick|thorough")
	repo := fs.String("repo", flagRepo, "repository")
	verif := fs.String("verif", flagVerif, "verif directory")
	seed := fs.Int("seed", 0, "seed")
	keep := fs.Bool("keep", false, "keep query files")
	verbose := fs.Bool("v", false, "verbose")
	fs.Parse(args)
	if *prop == "" {
		fatalf("check: -prop required")
	}
	if s := os.Getenv("VERIF_SEED"); s != "" && *seed == 0 {
		n, _ := strconv.Atoi(s)
		*seed = n
	}
	t0 := time.Now()
	thorough := *tier == "thorough"
	p := setup(*repo)
	rr := generate(p, *prop, thorough)
	var obls []*Obligation
	for _, o := range rr.Obls {
		if contains(o.Props, *prop) || o.Kind == "cover" {
			obls = append(obls, o)
		}
	}
	qdir, _ := os.MkdirTemp("", "govc-q-")
	if !*keep {
		defer os.RemoveAll(qdir)
	} else {
		fmt.Println("queries in", qdir)
	}
	timeout := 30 // quick tier: the slowest obligation of the pinned tree takes about 4 s on a loaded machine
	if thorough {
		timeout = 90
	}
	// solve in parallel
	var wg sync.WaitGroup
	sem := make(chan struct{}, 8)
	for _, o := range obls {
		wg.Add(1)
		go func(o *Obligation) {
			defer wg.Done()
			sem <- struct{}{}
			defer func() { <-sem }()
			if o.Goal == "true" {
				o.Res = SolverResult{Status: "unsat", Backend: "syntactic"}
				return
			}
			gv := o.Inputs
			if o.Ex != nil && len(o.Ex.replayInputs) > 0 {
				gv = o.Ex.replayTerms(o)
			}
			q := o.Script.Render(o.N, o.Hyp, o.Goal, gv)
			o.QueryFile = writeQuery(qdir, o.Name, q)
			first := timeout
			if len(o.Splits) > 0 && !thorough {
				first = 12
			}
			if o.ExpectSat {
				first = 20 // a cover that no solver reaches in 20 s counts as not reached; its group needs one member only
			}
			// a cover needs one model (reachability), not agreement of all solvers
			o.Res = solve(o.QueryFile, first, *seed, thorough && !o.ExpectSat)
			if (o.Res.Status == "timeout" || o.Res.Status == "unknown") && len(o.Splits) > 0 && !o.ExpectSat {
				o.Res = solveSplit(o, q, qdir, timeout, *seed)
			}
			if o.Res.Status == "sat" && !o.ExpectSat && !thorough {
				// a counterexample must not be contradicted by another solver
				if chk := solve(o.QueryFile, timeout, *seed, true); chk.Status == "disagree" {
					o.Res = chk
				}
			}
			if o.Res.Status == "sat" && !o.ExpectSat {
				// complete the model over the whole path (preconditions included)
				fq := writeQuery(qdir, o.Name+"_full", o.Script.RenderFull(o.N, o.Hyp, o.Goal, gv))
				if fr := solve(fq, timeout, *seed, false); fr.Status == "sat" {
					fr.TimeS += o.Res.TimeS
					o.Res = fr
					o.QueryFile = fq
				}
			}
			o.Res.Output = strings.TrimSpace(o.Res.Output)
		}(o)
	}
	wg.Wait()
	// an obligation left without a definite answer (a timeout or an error, typically when
	// the machine is loaded) is tried again, one at a time with a longer timeout, before
	// it is reported as undischarged
	for _, o := range obls {
		if o.ExpectSat || o.Goal == "true" || o.QueryFile == "" {
			continue
		}
		if o.Res.Status == "timeout" || o.Res.Status == "unknown" || o.Res.Status == "error" {
			r := solve(o.QueryFile, 3*timeout, *seed, false)
			if r.Status == "unsat" || r.Status == "sat" {
				r.TimeS += o.Res.TimeS
				r.Output = strings.TrimSpace(r.Output)
				o.Res = r
			}
		}
	}
	rep := buildReport(p, rr, obls, *prop, *tier, *seed, *verif, *repo, *verbose)
	runBounded(p, rep, *prop, thorough, *seed, *verif, *repo)
	runDemoBattery(p, rep, *prop, *verif, *repo)
	rep.WallS = time.Since(t0).Seconds()
	writeEvidence(rep, *verif)
	for _, l := range rep.Lines {
		fmt.Println(l)
	}
	fmt.Printf("govc: property %s tier %s: %d obligations, %d discharged, %d violations, %d known findings, %.1fs\n",
		*prop, *tier, rep.Cov.Obligations, rep.Cov.Discharged, rep.Violations, len(rep.Known), rep.WallS)
	if rep.EngineError != "" {
		fmt.Println("govc: ENGINE ERROR:", rep.EngineError)
		if !*keep {
			os.RemoveAll(qdir) // os.Exit skips the deferred removal
		}
		os.Exit(3)
	}
	if rep.Violations > 0 {
		if !*keep {
			os.RemoveAll(qdir)
		}
		os.Exit(1)
	}
}

type Coverage struct {
	Obligations  int               `json:"obligations"`
	Discharged   int               `json:"discharged"`
	CheckerCmd   string            `json:"checker_cmd"`
	TrustedBase  []string          `json:"trusted_base"`
	Functions    []string          `json:"functions_under_contract"`
	ByBackend    map[string]int    `json:"by_backend"`
	ByKind       map[string]int    `json:"by_kind"`
	SolverTimeS  float64           `json:"solver_time_s"`
	Slowest      []Sample          `json:"slowest"`
	Samples      []Sample          `json:"samples"`
	KnownFinding []string          `json:"known_findings"`
	Uncontracted []string          `json:"uncontracted_calls_and_notes"`
	Unsupported  []string          `json:"unsupported"`
	Unbound      []string          `json:"unbound_contracts"`
	TrustedFuncs []string          `json:"trusted_contracts"`
	Vacuity      map[string]int    `json:"vacuity"`
	Bounded      []json.RawMessage `json:"bounded_standins"`
	Failed       []Sample          `json:"failed,omitempty"`
	VacuousGroups []string         `json:"vacuous_groups,omitempty"`
	UndecidedGroups []string       `json:"cover_groups_undecided,omitempty"`
	Contracts    map[string]string `json:"contract_files_sha256"`
	ContractLock string            `json:"contract_lock"`
}

type Report struct {
	Prop        string
	Tier        string
	Seed        int
	Cov         Coverage
	Assumptions []string
	WallS       float64
	Violations  int
	Known       []string
	Lines       []string
	EngineError string
}

func sampleOf(o *Obligation) Sample {
	sz := 0
	if o.QueryFile != "" {
		if fi, err := os.Stat(o.QueryFile); err == nil {
			sz = int(fi.Size())
		}
	}
	return Sample{Obligation: o.Name, Kind: o.Kind, Function: o.Func, Where: o.Pos, Clause: o.Desc, SMTBytes: sz,
		Answer: o.Res.Status, Backend: o.Res.Backend, TimeS: round3(o.Res.TimeS)}
}

func round3(f float64) float64 { return float64(int(f*1000+0.5)) / 1000 }

func buildReport(p *Prog, rr *RunResult, obls []*Obligation, prop, tier string, seed int, verif, repo string, verbose bool) *Report {
	rep := &Report{Prop: prop, Tier: tier, Seed: seed}
	cov := &rep.Cov
	cov.ByBackend = map[string]int{}
	cov.ByKind = map[string]int{}
	cov.Vacuity = map[string]int{}
	cov.Contracts = p.CS.Sha
	switch {
	case p.CS.Locked == 0:
		cov.ContractLock = "no locked copies found; the contract files of the repository were used as they are"
	case len(p.CS.LockNotes) == 0:
		cov.ContractLock = fmt.Sprintf("%d contract files, each identical to its locked copy under /verif/contracts", p.CS.Locked)
	default:
		cov.ContractLock = strings.Join(p.CS.LockNotes, "; ")
	}
	cov.CheckerCmd = fmt.Sprintf("/verif/bin/govc check -prop %s -tier %s (VC generation over go/ssa of %s; z3 4.8.12, z3 5.1.0, cvc5 1.0.3 raced per obligation)", prop, tier, repo)
	cov.Functions = rr.Functions
	cov.Uncontracted = rr.Notes
	cov.Unsupported = rr.Unsupported
	cov.Unbound = rr.Unbound
	cov.TrustedFuncs = rr.Trusted
	kf := loadKnownFindings(verif)
	var coverGroups map[string]bool
	var coverUndecided map[string]bool
	sort.Slice(obls, func(i, j int) bool { return obls[i].Name < obls[j].Name })
	for _, o := range obls {
		if o.Kind == "cover" {
			if coverGroups == nil {
				coverGroups = map[string]bool{}
			}
			if _, seen := coverGroups[o.CoverGroup]; !seen {
				coverGroups[o.CoverGroup] = false
			}
			switch o.Res.Status {
			case "sat":
				cov.Vacuity["covers_reached"]++
				coverGroups[o.CoverGroup] = true
			case "unsat":
				cov.Vacuity["covers_not_reached"]++
			default:
				// no solver produced a model and none refuted the cover (typically a path whose
				// formula contains the quantified definition of append(a, b...)): the group is
				// undecided, which is reported but is not evidence of vacuity
				cov.Vacuity["covers_undecided"]++
				if coverUndecided == nil {
					coverUndecided = map[string]bool{}
				}
				coverUndecided[o.CoverGroup] = true
			}
			continue
		}
		cov.Obligations++
		cov.ByKind[o.Kind]++
		cov.SolverTimeS += o.Res.TimeS
		if verbose {
			rep.Lines = append(rep.Lines, fmtObl(o))
		}
		if o.Res.Status == "unsat" {
			cov.Discharged++
			cov.ByBackend[o.Res.Backend]++
			continue
		}
		if o.Res.Status == "disagree" {
			rep.EngineError = "solvers disagree on " + o.Name + " (" + fmt.Sprint(o.Res.All) + ")"
			continue
		}
		// failed obligation
		if k := kf.match(p, repo, prop, o); k != nil {
			rep.Known = append(rep.Known, k.What)
			cov.KnownFinding = append(cov.KnownFinding, o.Name+": "+k.What)
			rep.Lines = append(rep.Lines, fmt.Sprintf("KNOWN-FINDING: property=%s %s (%s)", prop, k.What, o.Name))
			// not counted as an obligation of the proof claim: listed separately
			cov.Obligations--
			cov.ByKind[o.Kind]--
			cov.Vacuity["known_finding_obligations"]++
			continue
		}
		if o.Dependency {
			// an obligation of the dependency closure that is an open known finding of the
			// property it belongs to is reported there, not here
			if f := kf.matchOther(p, repo, prop, o); f != nil {
				rep.Lines = append(rep.Lines, fmt.Sprintf("govc: %s (dependency closure) is the open known finding of %s; it is reported by that property's check, not counted for %s", o.Name, f.Property, prop))
				cov.Obligations--
				cov.ByKind[o.Kind]--
				cov.Vacuity["known_findings_of_other_properties_in_closure"]++
				continue
			}
		}
		rep.Violations++
		cov.Failed = append(cov.Failed, sampleOf(o))
		path := writeReplay(p, o, prop, verif, repo)
		line := fmt.Sprintf("VIOLATION property=%s replay=%s", prop, path.Path)
		if !path.Confirmed {
			line += " no-failing-input-found"
		}
		rep.Lines = append(rep.Lines, fmt.Sprintf("govc: obligation %s failed: %s by %s (%s) at %s", o.Name, o.Res.Status, o.Res.Backend, o.Desc, o.Pos))
		rep.Lines = append(rep.Lines, line)
	}
	for _, u := range rr.Unbound {
		if fc := p.CS.Funcs[u]; fc != nil && contains(contractTags(fc), prop) {
			rep.Violations++
			path := writeUnboundReplay(u, prop, verif)
			rep.Lines = append(rep.Lines, fmt.Sprintf("govc: contract %s no longer binds to a function", u))
			rep.Lines = append(rep.Lines, fmt.Sprintf("VIOLATION property=%s replay=%s no-failing-input-found", prop, path))
		}
	}
	for _, o := range obls {
		if o.Dependency {
			cov.Vacuity["obligations_from_dependency_closure"]++
		}
	}
	for _, u := range rr.Unsupported {
		rep.Lines = append(rep.Lines, "govc: unsupported: "+u)
	}
	if cov.Obligations == 0 {
		rep.EngineError = "vacuity: no obligations generated for " + prop
	}
	var vac []string
	var undec []string
	for g, ok := range coverGroups {
		if !ok && coverUndecided[g] {
			undec = append(undec, g)
		} else if !ok {
			vac = append(vac, g)
		}
	}
	sort.Strings(undec)
	cov.UndecidedGroups = undec
	sort.Strings(vac)
	cov.VacuousGroups = vac
	if len(vac) > 0 {
		rep.EngineError = fmt.Sprintf("vacuity: %d clause premises / functions have no reachable witness: %s", len(vac), strings.Join(vac, "; "))
	}
	// samples: slowest + a few
	byTime := append([]*Obligation{}, obls...)
	sort.Slice(byTime, func(i, j int) bool { return byTime[i].Res.TimeS > byTime[j].Res.TimeS })
	for i := 0; i < len(byTime) && i < 5; i++ {
		cov.Slowest = append(cov.Slowest, sampleOf(byTime[i]))
	}
	step := len(obls)/8 + 1
	for i := 0; i < len(obls); i += step {
		cov.Samples = append(cov.Samples, sampleOf(obls[i]))
	}
	cov.SolverTimeS = round3(cov.SolverTimeS)
	cov.TrustedBase, rep.Assumptions = trustedBase(prop, rr)
	return rep
}

func nn(xs []string) []string {
	if xs == nil {
		return []string{}
	}
	return xs
}

func writeEvidence(rep *Report, verif string) {
	c := &rep.Cov
	c.TrustedBase, c.Functions, c.KnownFinding, c.Uncontracted = nn(c.TrustedBase), nn(c.Functions), nn(c.KnownFinding), nn(c.Uncontracted)
	c.Unsupported, c.Unbound, c.TrustedFuncs = nn(c.Unsupported), nn(c.Unbound), nn(c.TrustedFuncs)
	rep.Assumptions = nn(rep.Assumptions)
	if c.Bounded == nil {
		c.Bounded = []json.RawMessage{}
	}
	if c.Samples == nil {
		c.Samples = []Sample{}
	}
	if c.Slowest == nil {
		c.Slowest = []Sample{}
	}
	ev := map[string]interface{}{
		"property_id": rep.Prop,
		"tier":        rep.Tier,
		"seed":        rep.Seed,
		"level":       "proof",
		"coverage":    rep.Cov,
		"assumptions": rep.Assumptions,
		"wall_s":      round3(rep.WallS),
		"violations":  rep.Violations,
	}
	_ = os.MkdirAll(filepath.Join(verif, "evidence"), 0o755)
	b, _ := json.MarshalIndent(ev, "", " ")
	_ = os.WriteFile(filepath.Join(verif, "evidence", rep.Prop+".json"), append(b, '\n'), 0o644)
}

// solveSplit: case analysis on the branch conditions that occur in the query
// (the solver is good at straight-line string constraints and poor at large
// if-then-else terms); every case must be unsat.
func solveSplit(o *Obligation, query, qdir string, timeout, seed int) SolverResult {
	var used []string
	seen := map[string]bool{}
	for i := len(o.Splits) - 1; i >= 0 && len(used) < 5; i-- {
		c := o.Splits[i]
		if seen[c] || !mentionsAll(query, c) {
			continue
		}
		seen[c] = true
		used = append(used, c)
	}
	if len(used) == 0 {
		return SolverResult{Status: "timeout", Backend: "split(0)"}
	}
	cut := strings.LastIndex(query, "(check-sat)")
	head, tail := query[:cut], query[cut:]
	total := 0.0
	t0 := time.Now()
	backends := map[string]bool{}
	for mask := 0; mask < 1<<len(used); mask++ {
		var extra strings.Builder
		for i, c := range used {
			if mask&(1<<i) != 0 {
				extra.WriteString("(assert " + c + ")\n")
			} else {
				extra.WriteString("(assert " + sNot(c) + ")\n")
			}
		}
		f := writeQuery(qdir, fmt.Sprintf("%s_case%d", o.Name, mask), head+extra.String()+tail)
		r := solve(f, timeout, seed, false)
		total += r.TimeS
		backends[r.Backend] = true
		if r.Status != "unsat" {
			r.TimeS = time.Since(t0).Seconds()
			r.Backend += fmt.Sprintf(" (case %d of %d-way split)", mask, 1<<len(used))
			return r
		}
	}
	return SolverResult{Status: "unsat", Backend: fmt.Sprintf("split(%d):%s", 1<<len(used), strings.Join(sortedKeys(backends), "+")), TimeS: time.Since(t0).Seconds()}
}

func mentionsAll(query, term string) bool {
	for _, y := range symbolsOf(term) {
		if smtBuiltin[y] {
			continue
		}
		if strings.Contains(y, "!") && !strings.Contains(query, y) {
			return false
		}
	}
	return true
}

var boundedDone = regexp.MustCompile(`BOUNDED-DONE cases=(\d+) seed=(-?\d+) failures=(\d+)(.*)`)

// runBounded executes the bounded stand-ins declared for the property. They are
// labelled bounded in the evidence and never counted among the discharged obligations;
// a failing case is a concrete input on the real code and is reported as a violation.
func runBounded(p *Prog, rep *Report, prop string, thorough bool, seed int, verif, repo string) {
	for _, bd := range p.CS.Bounded {
		if !contains(bd.Tags, prop) {
			continue
		}
		var src []byte
		var err error
		for _, d := range []string{filepath.Join(verif, "bounded"), filepath.Join(filepath.Dir(scenarioDir()), "bounded")} {
			if src, err = os.ReadFile(filepath.Join(d, bd.Name+".go.txt")); err == nil {
				break
			}
		}
		entry := map[string]interface{}{"name": bd.Name, "label": "bounded", "stands_in_for": bd.What}
		if err != nil {
			entry["outcome"] = "harness file not found"
			b, _ := json.Marshal(entry)
			rep.Cov.Bounded = append(rep.Cov.Bounded, b)
			continue
		}
		cases := "6000"
		if thorough {
			cases = "300000"
		}
		os.Setenv("GOVC_BOUNDED_CASES", cases)
		if seed != 0 {
			os.Setenv("VERIF_SEED", strconv.Itoa(seed))
		}
		out, rerr := runOverlayTest(p, repo, bd.PkgPath, string(src))
		m := boundedDone.FindStringSubmatch(out)
		fails := strings.Count(out, "BOUNDED-FAIL")
		switch {
		case m != nil:
			n, _ := strconv.Atoi(m[1])
			entry["cases"] = n
			entry["seed"] = m[2]
			entry["failures"] = fails
			entry["bound"] = strings.TrimSpace(m[4])
			entry["outcome"] = "completed"
		case rerr != nil:
			entry["outcome"] = "did not run: " + truncate(out, 600)
		}
		if fails > 0 {
			dir := filepath.Join(verif, "replays", prop)
			_ = os.MkdirAll(dir, 0o755)
			path := filepath.Join(dir, "bounded_"+sanitize(bd.Name)+".json")
			rb, _ := json.MarshalIndent(map[string]interface{}{"property": prop, "obligation": "bounded:" + bd.Name, "kind": "bounded stand-in",
				"note": "a case of the bounded stand-in fails on the tree under check (concrete failing input; see test_output)", "replay_confirmed": true,
				"generated_test": string(src), "test_output": truncate(out, 8000)}, "", " ")
			_ = os.WriteFile(path, append(rb, '\n'), 0o644)
			rep.Lines = append(rep.Lines, fmt.Sprintf("govc: bounded stand-in %s: %d failing case(s)", bd.Name, fails))
			rep.Lines = append(rep.Lines, fmt.Sprintf("VIOLATION property=%s replay=%s", prop, path))
			rep.Violations++
		}
		b, _ := json.Marshal(entry)
		rep.Cov.Bounded = append(rep.Cov.Bounded, b)
	}
}

// runDemoBattery: when an obligation of the property has failed and none of the
// failures could be replayed from the solver's model, the demonstration tests kept
// with the seeded changes of that property (/verif/seeded/*/demo_test.go; each passes
// on the pinned tree) are run against the tree under check, one at a time, until one
// fails. A failing demonstration is a concrete failing test on the real code; it is
// reported on a VIOLATION line of its own. The battery is never run on a tree whose
// obligations all discharge.
func runDemoBattery(p *Prog, rep *Report, prop, verif, repo string) {
	if rep.Violations == 0 || os.Getenv("GOVC_NO_BATTERY") != "" {
		return
	}
	for _, l := range rep.Lines {
		if strings.HasPrefix(l, "VIOLATION") && !strings.HasSuffix(l, "no-failing-input-found") {
			return // a failure has already been replayed on the real code
		}
	}
	seeded := filepath.Join(filepath.Dir(scenarioDir()), "seeded")
	ents, err := os.ReadDir(seeded)
	if err != nil {
		return
	}
	deadline := time.Now().Add(240 * time.Second)
	tried := 0
	for _, en := range ents {
		if time.Now().After(deadline) {
			break
		}
		dir := filepath.Join(seeded, en.Name())
		mb, err := os.ReadFile(filepath.Join(dir, "meta.json"))
		if err != nil {
			continue
		}
		var meta struct {
			Property string `json:"property"`
			Dir      string `json:"demo_package_dir"`
		}
		if json.Unmarshal(mb, &meta) != nil || meta.Property != prop {
			continue
		}
		src, err := os.ReadFile(filepath.Join(dir, "demo_test.go"))
		if err != nil {
			continue
		}
		var names []string
		for _, m := range regexp.MustCompile(`(?m)^func (Test[A-Za-z0-9_]*)`).FindAllStringSubmatch(string(src), -1) {
			if m[1] != "TestMain" {
				names = append(names, m[1])
			}
		}
		if len(names) == 0 {
			continue
		}
		tried++
		out, _ := runOverlayTestNamed(repo, meta.Dir, string(src), "^("+strings.Join(names, "|")+")$", 150)
		if strings.Contains(out, "--- FAIL") || strings.Contains(out, "panic:") {
			rdir := filepath.Join(verif, "replays", prop)
			_ = os.MkdirAll(rdir, 0o755)
			path := filepath.Join(rdir, "demo_"+sanitize(en.Name())+".json")
			rb, _ := json.MarshalIndent(map[string]interface{}{"property": prop, "obligation": "demonstration:" + en.Name(), "kind": "regression demonstration",
				"note": "a demonstration test kept with the seeded changes of this property (it passes on the pinned tree) fails on the tree under check: a concrete failing test on the real code, found after obligations of the property had failed; not the solver's model",
				"replay_confirmed": true, "generated_test": string(src), "test_output": truncate(out, 8000)}, "", " ")
			_ = os.WriteFile(path, append(rb, '\n'), 0o644)
			rep.Lines = append(rep.Lines, fmt.Sprintf("govc: demonstration test seeded/%s/demo_test.go fails on this tree", en.Name()))
			rep.Lines = append(rep.Lines, fmt.Sprintf("VIOLATION property=%s replay=%s", prop, path))
			rep.Violations++
			return
		}
	}
	if tried > 0 {
		rep.Lines = append(rep.Lines, fmt.Sprintf("govc: %d demonstration test(s) of %s run against this tree: none fails", tried, prop))
	}
}
