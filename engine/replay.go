package main

// Replay of solver models on the real code: the model's inputs are turned
// into a Go test injected into the function's package through `go test
// -overlay` (nothing is written under the repository), the real function is
// called, and its observable outcome (panic / results) is compared with what
// the counterexample execution predicts.

import (
	"go/ast"
	"bytes"
	"context"
	"encoding/json"
	"fmt"
	"go/token"
	"go/types"
	"os"
	"os/exec"
	"path/filepath"
	"sort"
	"strings"
	"time"

	"golang.org/x/tools/go/ssa"
)

// inNode describes one input location whose model value is requested.
type inNode struct {
	T      types.Type
	K      Kind
	terms  []string // component terms
	fields []*inField
	impls  []*inImpl // interface: candidate dynamic types
	lenT   string
	elems  []*inNode
	elemT  types.Type
}

type inField struct {
	name string
	node *inNode
}

type inImpl struct {
	T    types.Type // pointer type
	tag  int
	node *inNode
}

const replayDepth = 3
const replayElems = 3

func (e *Exec) buildInput(v Val, t types.Type, depth int) *inNode {
	n := &inNode{T: t, K: v.K, terms: v.A}
	if t == nil || depth > replayDepth {
		return n
	}
	switch v.K {
	case KStruct:
		stt := t.Underlying().(*types.Struct)
		for i := 0; i < stt.NumFields(); i++ {
			n.fields = append(n.fields, &inField{stt.Field(i).Name(), e.buildInput(v.F[i], stt.Field(i).Type(), depth+1)})
		}
	case KRef:
		switch u := t.Underlying().(type) {
		case *types.Pointer:
			if stt, ok := u.Elem().Underlying().(*types.Struct); ok && !isOpaqueStruct(u.Elem()) {
				n.fields = e.objFields(v.t(), u.Elem(), stt, depth)
			}
		case *types.Interface:
			for _, it := range e.P.implementers(u) {
				stt, ok := it.(*types.Pointer).Elem().Underlying().(*types.Struct)
				if !ok {
					continue
				}
				im := &inImpl{T: it, tag: e.P.tagOf(it), node: &inNode{T: it, K: KRef, terms: v.A}}
				im.node.fields = e.objFields(v.t(), it.(*types.Pointer).Elem(), stt, depth)
				n.impls = append(n.impls, im)
			}
		case *types.Slice:
			an, srt := e.seqArr(u.Elem())
			seq := sx("select", an, v.t())
			_ = srt
			n.lenT = sx("select", "LEN", v.t())
			n.elemT = u.Elem()
			for i := 0; i < replayElems; i++ {
				ev := e.elemPure(sx("select", seq, sInt(int64(i))), u.Elem())
				n.elems = append(n.elems, e.buildInput(ev, u.Elem(), depth+1))
			}
		}
	}
	return n
}

func (e *Exec) objFields(ref string, T types.Type, stt *types.Struct, depth int) []*inField {
	var out []*inField
	for i := 0; i < stt.NumFields(); i++ {
		f := stt.Field(i)
		fv := e.baseRead(fieldArrName(T, f.Name()), f.Type(), ref)
		out = append(out, &inField{f.Name(), e.buildInput(fv, f.Type(), depth+1)})
	}
	return out
}

// baseRead reads from the entry-state (base) arrays without side effects.
func (e *Exec) baseRead(name string, ft types.Type, idx string) Val {
	switch kindOf(ft) {
	case KInt:
		return vInt(sx("select", name, idx)).withT(ft)
	case KBool:
		return vBool(sx("select", name, idx)).withT(ft)
	case KStr:
		return vStr(sx("select", name, idx)).withT(ft)
	case KBytes:
		return vBytes(sx("select", name+"_s", idx), sx("select", name+"_n", idx)).withT(ft)
	case KRef:
		return vRef(sx("select", name, idx)).withT(ft)
	case KStruct:
		stt := ft.Underlying().(*types.Struct)
		v := Val{K: KStruct, T: ft}
		for i := 0; i < stt.NumFields(); i++ {
			v.F = append(v.F, e.baseRead(name+"."+stt.Field(i).Name(), stt.Field(i).Type(), idx))
		}
		return v
	}
	return vUnit()
}

var implCache = map[string][]types.Type{}

// implementers: pointer-to-struct types of the module implementing an interface.
func (p *Prog) implementers(it *types.Interface) []types.Type {
	key := it.String()
	if r, ok := implCache[key]; ok {
		return r
	}
	var out []types.Type
	if it.NumMethods() == 0 {
		implCache[key] = nil
		return nil
	}
	for _, pk := range p.Pkgs {
		sc := pk.Types.Scope()
		for _, n := range sc.Names() {
			tn, ok := sc.Lookup(n).(*types.TypeName)
			if !ok {
				continue
			}
			if _, ok := tn.Type().Underlying().(*types.Struct); !ok {
				continue
			}
			pt := types.NewPointer(tn.Type())
			if types.Implements(pt, it) {
				out = append(out, pt)
			}
		}
	}
	implCache[key] = out
	return out
}

func (n *inNode) collect(out *[]string) {
	if n == nil {
		return
	}
	*out = append(*out, n.terms...)
	for _, f := range n.fields {
		f.node.collect(out)
	}
	for _, im := range n.impls {
		im.node.collectFields(out)
	}
	if n.lenT != "" {
		*out = append(*out, n.lenT)
	}
	for _, el := range n.elems {
		el.collect(out)
	}
	if n.K == KRef && len(n.terms) == 1 {
		*out = append(*out, sx("typeof", n.terms[0]))
	}
}

func (n *inNode) collectFields(out *[]string) {
	for _, f := range n.fields {
		f.node.collect(out)
	}
}

// ---------------------------------------------------------------------------

type goBuilder struct {
	model map[string]string
	pkg   *types.Package
	b     strings.Builder
	n     int
	objs  map[string]string // ref value -> variable
	p     *Prog
	inexact bool
	needSet bool
}

func (g *goBuilder) qual(t types.Type) string {
	return types.TypeString(t, func(p *types.Package) string {
		if p == g.pkg {
			return ""
		}
		return p.Name()
	})
}

func (g *goBuilder) mv(term string) (string, bool) {
	v, ok := g.model[term]
	return v, ok
}

func (g *goBuilder) intOf(term string) int64 {
	if v, ok := g.mv(term); ok {
		if n, ok := smtIntToGo(v); ok {
			return n
		}
	}
	if n, ok := smtIntToGo(term); ok {
		return n
	}
	return 0
}

func (g *goBuilder) strOf(term string) string {
	v, ok := g.mv(term)
	if !ok {
		v = term
	}
	s, exact := smtStringToGo(v)
	if !exact {
		g.inexact = true
	}
	return s
}

func (g *goBuilder) boolOf(term string) bool {
	v, ok := g.mv(term)
	if !ok {
		v = term
	}
	return v == "true"
}

// expr returns a Go expression for the input described by n.
func (g *goBuilder) expr(n *inNode) string {
	switch n.K {
	case KInt:
		if n.T != nil && isOpaqueStruct(n.T) {
			return g.qual(n.T) + "{}"
		}
		if n.T != nil {
			if b, ok := n.T.Underlying().(*types.Basic); ok && b.Info()&types.IsFloat != 0 {
				return fmt.Sprintf("%s(%d)", g.qual(n.T), g.intOf(n.terms[0]))
			}
			return fmt.Sprintf("%s(%d)", g.qual(n.T), g.intOf(n.terms[0]))
		}
		return fmt.Sprintf("%d", g.intOf(n.terms[0]))
	case KBool:
		return fmt.Sprintf("%v", g.boolOf(n.terms[0]))
	case KStr:
		return fmt.Sprintf("%q", g.strOf(n.terms[0]))
	case KBytes:
		if g.boolOf(n.terms[1]) {
			return "[]byte(nil)"
		}
		return fmt.Sprintf("[]byte(%q)", g.strOf(n.terms[0]))
	case KStruct:
		var fs []string
		for _, f := range n.fields {
			fs = append(fs, f.name+": "+g.expr(f.node))
		}
		return g.qual(n.T) + "{" + strings.Join(fs, ", ") + "}"
	case KRef:
		return g.refExpr(n)
	}
	return "nil"
}

func (g *goBuilder) refExpr(n *inNode) string {
	ref := g.intOf(n.terms[0])
	if ref == 0 || n.T == nil {
		return "nil"
	}
	switch u := n.T.Underlying().(type) {
	case *types.Pointer:
		if _, ok := u.Elem().Underlying().(*types.Struct); ok && n.fields != nil {
			return g.object(ref, n.T, n.fields)
		}
		return "nil"
	case *types.Interface:
		tv, ok := g.mv(sx("typeof", n.terms[0]))
		if !ok {
			return "nil"
		}
		tag, _ := smtIntToGo(tv)
		for _, im := range n.impls {
			if int64(im.tag) == tag {
				return g.object(ref, im.T, im.node.fields)
			}
		}
		return "nil"
	case *types.Slice:
		ln := g.intOf(n.lenT)
		if ln > replayElems {
			ln = replayElems
			g.inexact = true
		}
		var es []string
		for i := int64(0); i < ln; i++ {
			es = append(es, g.expr(n.elems[i]))
		}
		return g.qual(n.T) + "{" + strings.Join(es, ", ") + "}"
	}
	return "nil"
}

func (g *goBuilder) object(ref int64, pt types.Type, fields []*inField) string {
	key := fmt.Sprintf("%d/%s", ref, pt.String())
	if v, ok := g.objs[key]; ok {
		return v
	}
	g.n++
	name := fmt.Sprintf("o%d", g.n)
	g.objs[key] = name
	elem := pt.(*types.Pointer).Elem()
	fmt.Fprintf(&g.b, "\t%s := &%s{}\n", name, g.qual(elem))
	for _, f := range fields {
		if f.name == "_" {
			continue
		}
		if f.node.K == KInt && f.node.T != nil && isOpaqueStruct(f.node.T) {
			continue
		}
		if _, isFn := f.node.T.Underlying().(*types.Signature); isFn {
			continue
		}
		if _, isCh := f.node.T.Underlying().(*types.Chan); isCh {
			continue
		}
		if _, isMap := f.node.T.Underlying().(*types.Map); isMap {
			continue
		}
		ex := g.expr(f.node)
		if ex == "nil" || ex == `""` || ex == "false" || ex == "[]byte(nil)" {
			continue
		}
		foreign := false
		if nt, ok := types.Unalias(elem).(*types.Named); ok && nt.Obj().Pkg() != g.pkg && !token.IsExported(f.name) {
			foreign = true
		}
		if foreign {
			g.needSet = true
			fmt.Fprintf(&g.b, "\tgovcSet(%s, %q, %s(%s))\n", name, f.name, g.qual(f.node.T), ex)
		} else {
			fmt.Fprintf(&g.b, "\t%s.%s = %s\n", name, f.name, ex)
		}
	}
	return name
}

// ---------------------------------------------------------------------------

type replaySpec struct {
	inputs  []*inNode // receiver first
	results []Val     // predicted results (terms) for post obligations
	fn      *ssa.Function
}

func (e *Exec) replayTerms(o *Obligation) []string {
	var out []string
	for _, n := range e.replayInputs {
		n.collect(&out)
	}
	for _, r := range o.ResultTerms {
		out = append(out, r)
	}
	return dedup(out)
}

func dedup(xs []string) []string {
	seen := map[string]bool{}
	var out []string
	for _, x := range xs {
		if !seen[x] && !isLiteral(x) {
			seen[x] = true
			out = append(out, x)
		}
	}
	return out
}

func isLiteral(t string) bool {
	if t == "true" || t == "false" || t == "" {
		return true
	}
	if t[0] == '"' {
		return true
	}
	if _, ok := smtIntToGo(t); ok {
		return true
	}
	return false
}

func tryReplay(p *Prog, o *Obligation, rf *ReplayFile, repo string) {
	e := o.Ex
	if e == nil || e.fn == nil || e.fn.Parent() != nil || e.fn.Pkg == nil {
		rf.Note = "no direct replay: the obligation belongs to a closure or lemma (not callable from a test)"
		return
	}
	if o.Kind == "inv-keep" || o.Kind == "inv-entry" || o.Kind == "decr" || o.Kind == "lemma" {
		rf.Note = "no direct replay: the model describes an arbitrary loop iteration, not a function input"
		return
	}
	fn := e.fn
	if len(e.replayInputs) != len(fn.Params) {
		rf.Note = "no direct replay: obligation is not about one execution of the function body (refinement or lemma)"
		return
	}
	defer func() {
		if r := recover(); r != nil {
			rf.Note = fmt.Sprintf("replay generator failed: %v", r)
		}
	}()
	g := &goBuilder{model: o.Res.Model, pkg: fn.Pkg.Pkg, objs: map[string]string{}, p: p}
	var args []string
	for _, n := range e.replayInputs {
		args = append(args, g.expr(n))
	}
	var call string
	sig := fn.Signature
	if sig.Recv() != nil {
		call = fmt.Sprintf("(%s).%s(%s)", args[0], fn.Name(), strings.Join(args[1:], ", "))
	} else {
		call = fmt.Sprintf("%s(%s)", fn.Name(), strings.Join(args, ", "))
	}
	nres := sig.Results().Len()
	var lhs []string
	for i := 0; i < nres; i++ {
		lhs = append(lhs, fmt.Sprintf("r%d", i))
	}
	var t strings.Builder
	imports := map[string]bool{"fmt": true, "testing": true}
	body := g.b.String()
	for _, pk := range p.Pkgs {
		if pk.Types != fn.Pkg.Pkg && strings.Contains(body+strings.Join(args, " "), pk.Types.Name()+".") {
			imports[pk.PkgPath] = true
		}
	}
	if strings.Contains(body+strings.Join(args, " "), "time.") {
		imports["time"] = true
	}
	if g.needSet {
		imports["reflect"] = true
		imports["unsafe"] = true
	}
	fmt.Fprintf(&t, "package %s\n\nimport (\n", fn.Pkg.Pkg.Name())
	for _, im := range sortedKeys(imports) {
		fmt.Fprintf(&t, "\t%q\n", im)
	}
	fmt.Fprintf(&t, ")\n\nfunc TestGovcReplay(t *testing.T) {\n")
	fmt.Fprintf(&t, "\tdefer func() {\n\t\tif r := recover(); r != nil {\n\t\t\tfmt.Printf(\"REPLAY-PANIC %%v\\n\", r)\n\t\t}\n\t}()\n")
	t.WriteString(body)
	if nres > 0 {
		fmt.Fprintf(&t, "\t%s := %s\n", strings.Join(lhs, ", "), call)
		for i := 0; i < nres; i++ {
			rt := sig.Results().At(i).Type()
			switch kindOf(rt) {
			case KBytes:
				fmt.Fprintf(&t, "\tfmt.Printf(\"REPLAY-RESULT %d bytes %%v %%q\\n\", r%d == nil, string(r%d))\n", i, i, i)
			case KStr:
				fmt.Fprintf(&t, "\tfmt.Printf(\"REPLAY-RESULT %d string %%q\\n\", string(r%d))\n", i, i)
			case KInt:
				if isOpaqueStruct(rt) {
					fmt.Fprintf(&t, "\t_ = r%d\n", i)
				} else {
					fmt.Fprintf(&t, "\tfmt.Printf(\"REPLAY-RESULT %d int %%d\\n\", int64(r%d))\n", i, i)
				}
			case KBool:
				fmt.Fprintf(&t, "\tfmt.Printf(\"REPLAY-RESULT %d bool %%v\\n\", r%d)\n", i, i)
			case KRef:
				fmt.Fprintf(&t, "\tfmt.Printf(\"REPLAY-RESULT %d nil %%v\\n\", r%d == nil)\n", i, i)
			default:
				fmt.Fprintf(&t, "\t_ = r%d\n", i)
			}
		}
	} else {
		fmt.Fprintf(&t, "\t%s\n", call)
	}
	fmt.Fprintf(&t, "\tfmt.Println(\"REPLAY-RETURNED\")\n}\n")
	if g.needSet {
		t.WriteString("\n// govcSet assigns an unexported field of a struct from another package (test-only, via reflect+unsafe).\nfunc govcSet(obj interface{}, name string, val interface{}) {\n\tv := reflect.ValueOf(obj).Elem().FieldByName(name)\n\treflect.NewAt(v.Type(), unsafe.Pointer(v.UnsafeAddr())).Elem().Set(reflect.ValueOf(val).Convert(v.Type()))\n}\n")
	}
	rf.Test = t.String()
	out, err := runOverlayTest(p, repo, fn.Pkg.Pkg.Path(), rf.Test)
	rf.TestOutput = truncate(out, 6000)
	if err != nil && !strings.Contains(out, "REPLAY-") {
		rf.Note = "replay test did not run: " + err.Error()
		return
	}
	panicked := strings.Contains(out, "REPLAY-PANIC")
	switch o.Kind {
	case "safety", "pre":
		if panicked {
			rf.Confirmed = true
			rf.Note = "the real function panics on the model's input"
		} else {
			rf.Note = "the real function did not panic on the model's input"
		}
	case "post", "frame":
		if panicked {
			rf.Note = "the real function panicked on the model's input (post-condition not evaluated)"
			return
		}
		// compare observed results with the counterexample's predicted results
		pred := predictedResults(o, g)
		obs := observedResults(out)
		if len(pred) == 0 {
			rf.Note = "no predicted results to compare"
			return
		}
		match := true
		var diffs []string
		for i, pv := range pred {
			if pv == "" {
				continue
			}
			if obs[i] != pv {
				match = false
				diffs = append(diffs, fmt.Sprintf("result %d: counterexample predicts %s, real code returned %s", i, pv, obs[i]))
			}
		}
		if match && !clauseOverInputsAndResults(p, o) {
			// equal results say nothing about a clause over ghost state or the post-heap
			rf.Note = "the real function returns the results of the counterexample execution, but the clause also speaks about ghost or heap state the replay does not observe: not confirmed"
		} else if match {
			rf.Confirmed = true
			rf.Note = "the real function, run on the model's input, returns exactly the results of the counterexample execution, which violate the clause"
		} else {
			rf.Note = "real results differ from the counterexample execution: " + strings.Join(diffs, "; ")
		}
	}
	if g.inexact && rf.Confirmed {
		rf.Note += " (model contained characters above 255 or long slices; reduced for replay)"
	}
}

func predictedResults(o *Obligation, g *goBuilder) []string {
	var out []string
	for _, rv := range o.Results {
		switch rv.K {
		case KBytes:
			out = append(out, fmt.Sprintf("bytes %v %q", g.boolOf(rv.A[1]), g.strOf(rv.A[0])))
		case KStr:
			out = append(out, fmt.Sprintf("string %q", g.strOf(rv.A[0])))
		case KInt:
			if rv.T != nil && isOpaqueStruct(rv.T) {
				out = append(out, "")
			} else {
				out = append(out, fmt.Sprintf("int %d", g.intOf(rv.A[0])))
			}
		case KBool:
			out = append(out, fmt.Sprintf("bool %v", g.boolOf(rv.A[0])))
		case KRef:
			out = append(out, fmt.Sprintf("nil %v", g.intOf(rv.A[0]) == 0))
		default:
			out = append(out, "")
		}
	}
	return out
}

func observedResults(out string) map[int]string {
	m := map[int]string{}
	for _, l := range strings.Split(out, "\n") {
		if strings.HasPrefix(l, "REPLAY-RESULT ") {
			rest := l[len("REPLAY-RESULT "):]
			var i int
			fmt.Sscanf(rest, "%d", &i)
			sp := strings.Index(rest, " ")
			m[i] = rest[sp+1:]
		}
	}
	return m
}

// runOverlayTest injects testSrc into package pkgPath through -overlay and runs it.
func runOverlayTest(p *Prog, repo, pkgPath, testSrc string) (string, error) {
	dir, err := os.MkdirTemp("", "govc-replay-")
	if err != nil {
		return "", err
	}
	defer os.RemoveAll(dir)
	rel := strings.TrimPrefix(strings.TrimPrefix(pkgPath, modPath), "/")
	testFile := filepath.Join(dir, "zz_govc_replay_test.go")
	if err := os.WriteFile(testFile, []byte(testSrc), 0o644); err != nil {
		return "", err
	}
	ov := map[string]map[string]string{"Replace": {filepath.Join(repo, rel, "zz_govc_replay_test.go"): testFile}}
	ob, _ := json.Marshal(ov)
	ovFile := filepath.Join(dir, "overlay.json")
	_ = os.WriteFile(ovFile, ob, 0o644)
	ctx, cancel := context.WithTimeout(context.Background(), 120*time.Second)
	defer cancel()
	target := "./" + rel
	if rel == "" {
		target = "."
	}
	cmd := exec.CommandContext(ctx, "bash", "-c", fmt.Sprintf("ulimit -v 8000000; exec go test -overlay %s -vet=off -timeout 60s -count=1 -run '^TestGovcReplay$' -v %s", ovFile, target))
	cmd.Dir = repo
	cmd.Env = append(os.Environ(), "GOFLAGS=-mod=mod", "GOPROXY=off", "GOSUMDB=off", "GOTOOLCHAIN=local")
	var out bytes.Buffer
	cmd.Stdout = &out
	cmd.Stderr = &out
	err = cmd.Run()
	return out.String(), err
}

var _ = sort.Strings

// runOverlayTestNamed injects a test file into a package directory (module-relative)
// and runs the named tests.
func runOverlayTestNamed(repo, rel, testSrc, runPat string, timeoutS int) (string, error) {
	dir, err := os.MkdirTemp("", "govc-demo-")
	if err != nil {
		return "", err
	}
	defer os.RemoveAll(dir)
	if rel == "." {
		rel = ""
	}
	testFile := filepath.Join(dir, "zz_govc_demo_test.go")
	if err := os.WriteFile(testFile, []byte(testSrc), 0o644); err != nil {
		return "", err
	}
	ov := map[string]map[string]string{"Replace": {filepath.Join(repo, rel, "zz_govc_demo_test.go"): testFile}}
	ob, _ := json.Marshal(ov)
	ovFile := filepath.Join(dir, "overlay.json")
	_ = os.WriteFile(ovFile, ob, 0o644)
	ctx, cancel := context.WithTimeout(context.Background(), time.Duration(timeoutS+30)*time.Second)
	defer cancel()
	target := "./" + rel
	if rel == "" {
		target = "."
	}
	cmd := exec.CommandContext(ctx, "bash", "-c", fmt.Sprintf("ulimit -v 8000000; exec go test -overlay %s -vet=off -timeout %ds -count=1 -run '%s' %s", ovFile, timeoutS, runPat, target))
	cmd.Dir = repo
	cmd.Env = append(os.Environ(), "GOFLAGS=-mod=mod", "GOPROXY=off", "GOSUMDB=off", "GOTOOLCHAIN=local")
	var out bytes.Buffer
	cmd.Stdout = &out
	cmd.Stderr = &out
	err = cmd.Run()
	return out.String(), err
}

var pureBuiltins = map[string]bool{"len": true, "string": true, "bytes": true, "cat": true, "sub": true, "from": true, "idx": true, "idxfrom": true,
	"hasPrefix": true, "hasSuffix": true, "contains": true, "imp": true, "iff": true, "ite": true, "dec": true, "atoi": true, "isint": true,
	"isdigits": true, "chr": true, "code": true, "noSOH": true, "isnil": true, "errconst": true}

// clauseOverInputsAndResults: the clause mentions only parameters, results, constants
// and pure functions of them (no field selection, no ghost variable, no heap-reading
// spec function, no old()). Only then do matching results confirm a violation.
func clauseOverInputsAndResults(p *Prog, o *Obligation) bool {
	if o.Clause == nil || o.Ex == nil || o.Ex.fc == nil {
		return false
	}
	fc := o.Ex.fc
	names := map[string]bool{"nil": true, "true": true, "false": true, "SOH": true, "nilbytes": true, "result": true}
	for _, q := range fc.Params {
		names[q.Name] = true
	}
	for _, q := range fc.Results {
		names[q.Name] = true
	}
	for _, w := range fc.Witness {
		_ = w
	}
	ok := true
	var pureSpec func(name string, depth int) bool
	var walk func(n ast.Node, depth int)
	pureSpec = func(name string, depth int) bool {
		sf := p.CS.Specs[name]
		if sf == nil || sf.Heap || sf.Opaque || len(sf.Reads) > 0 || sf.Body == nil || depth > 6 {
			return false
		}
		inner := true
		saveOK, saveNames := ok, names
		ok = true
		names = map[string]bool{"nil": true, "true": true, "false": true, "SOH": true, "nilbytes": true}
		for _, q := range sf.Params {
			names[q.Name] = true
		}
		walk(sf.Body, depth+1)
		inner = ok
		ok, names = saveOK, saveNames
		return inner
	}
	walk = func(n ast.Node, depth int) {
		ast.Inspect(n, func(m ast.Node) bool {
			switch x := m.(type) {
			case *ast.SelectorExpr:
				ok = false
				return false
			case *ast.CallExpr:
				id, isId := x.Fun.(*ast.Ident)
				if !isId {
					ok = false
					return false
				}
				if !pureBuiltins[id.Name] && !pureSpec(id.Name, depth) {
					ok = false
					return false
				}
				for _, a := range x.Args {
					walk(a, depth)
				}
				return false
			case *ast.Ident:
				if !names[x.Name] {
					ok = false
				}
			}
			return ok
		})
	}
	walk(o.Clause, 0)
	return ok
}
