package main

// Symbolic values: how Go types are laid out as SMT terms.

import (
	"fmt"
	"go/types"
	"strings"
)

type Kind int

const (
	KInt    Kind = iota // any integer type, float64/time.Time as opaque ints; sort Int
	KBool               // Bool
	KStr                // string: String
	KBytes              // []byte: (String, Bool isnil)
	KRef                // pointer, interface, func, chan, map, non-byte slice, error: Int (0 = nil)
	KStruct             // struct value: fields
	KTuple              // multiple results
	KUnit               // no value
	KMap                // spec-level map Int -> Int: (Array Int Int)
	KSMap               // spec-level map Int -> String: (Array Int String)
)

func (k Kind) String() string {
	return [...]string{"int", "bool", "string", "bytes", "ref", "struct", "tuple", "unit", "map", "smap"}[k]
}

type Val struct {
	K Kind
	T types.Type // Go type when known (may be nil for spec-level values)
	A []string   // component terms
	F []Val      // fields of struct / tuple
	// Static side information (not part of the logical value):
	Origin string // "T.f" when the value was loaded from that struct field (function-typed fields)
	OriginBase string // the object the field was loaded from
	Shared string // non-empty: the object may be used by other goroutines at the same time (where it came from)
	Elems []Val // known elements when this ref is a freshly built literal slice/array
	Boxed *Val  // value boxed by MakeInterface (static knowledge)
	Ident string // []byte values: identity of the backing array (ownership tracking, static)
}

func (v Val) t() string {
	if len(v.A) == 0 {
		panic(fmt.Sprintf("value of kind %v has no term", v.K))
	}
	return v.A[0]
}

func vInt(t string) Val              { return Val{K: KInt, A: []string{t}} }
func vBool(t string) Val             { return Val{K: KBool, A: []string{t}} }
func vStr(t string) Val              { return Val{K: KStr, A: []string{t}} }
func vBytes(s, isnil string) Val     { return Val{K: KBytes, A: []string{s, isnil}} }
func vRef(t string) Val              { return Val{K: KRef, A: []string{t}} }
func vUnit() Val                     { return Val{K: KUnit} }
func (v Val) withT(t types.Type) Val { v.T = t; return v }

// sortsOf gives the SMT sorts of the components of a kind.
func sortsOf(k Kind) []string {
	switch k {
	case KInt, KRef:
		return []string{"Int"}
	case KBool:
		return []string{"Bool"}
	case KStr:
		return []string{"String"}
	case KBytes:
		return []string{"String", "Bool"}
	case KMap:
		return []string{"(Array Int Int)"}
	case KSMap:
		return []string{"(Array Int String)"}
	}
	return nil
}

func isByteSlice(t types.Type) bool {
	if s, ok := t.Underlying().(*types.Slice); ok {
		if b, ok := s.Elem().Underlying().(*types.Basic); ok && b.Kind() == types.Uint8 {
			return true
		}
	}
	return false
}

func isByteArray(t types.Type) bool {
	if s, ok := t.Underlying().(*types.Array); ok {
		if b, ok := s.Elem().Underlying().(*types.Basic); ok && b.Kind() == types.Uint8 {
			return true
		}
	}
	return false
}

func isOpaqueStruct(t types.Type) bool {
	s := t.String()
	switch s {
	case "time.Time", "sync.Mutex", "sync.RWMutex", "sync.Once", "sync.WaitGroup", "golang.org/x/sync/errgroup.Group":
		return true
	}
	return false
}

// kindOf maps a Go type to a value kind.
func kindOf(t types.Type) Kind {
	if t == nil {
		return KUnit
	}
	if isOpaqueStruct(t) {
		return KInt
	}
	switch u := t.Underlying().(type) {
	case *types.Basic:
		switch {
		case u.Info()&types.IsBoolean != 0:
			return KBool
		case u.Info()&types.IsString != 0:
			return KStr
		case u.Info()&types.IsNumeric != 0:
			return KInt
		case u.Kind() == types.UnsafePointer || u.Kind() == types.UntypedNil:
			return KRef
		}
		return KInt
	case *types.Slice:
		if isByteSlice(t) {
			return KBytes
		}
		return KRef
	case *types.Pointer, *types.Interface, *types.Signature, *types.Chan, *types.Map, *types.Array:
		return KRef
	case *types.Struct:
		return KStruct
	case *types.Tuple:
		if u.Len() == 0 {
			return KUnit
		}
		return KTuple
	}
	return KRef
}

// elemSort: the SMT sort of an element of a slice/array of the given element type.
func elemSort(t types.Type) string {
	switch kindOf(t) {
	case KInt, KRef:
		return "Int"
	case KBool:
		return "Bool"
	case KStr, KBytes:
		return "String"
	}
	return "Int"
}

// typeKey is a stable, SMT-safe key for a named type.
func typeKey(t types.Type) string {
	t = types.Unalias(t)
	if p, ok := t.(*types.Pointer); ok {
		return "p_" + typeKey(p.Elem())
	}
	if n, ok := t.(*types.Named); ok {
		o := n.Obj()
		if o.Pkg() != nil {
			return sanitize(shortPkg(o.Pkg().Path()) + "_" + o.Name())
		}
		return sanitize(o.Name())
	}
	return sanitize(strings.NewReplacer("*", "p_", "[]", "sl_", " ", "", "{", "_", "}", "_", "/", "_").Replace(t.String()))
}

func shortPkg(path string) string {
	const mod = "github.com/b2broker/simplefix-go"
	if path == mod {
		return "root"
	}
	if strings.HasPrefix(path, mod+"/") {
		return strings.ReplaceAll(path[len(mod)+1:], "/", "_")
	}
	return strings.ReplaceAll(path, "/", "_")
}

// structOf returns the struct type reached through named/pointer layers.
func structOf(t types.Type) (*types.Struct, types.Type) {
	t = types.Unalias(t)
	if p, ok := t.Underlying().(*types.Pointer); ok {
		t = p.Elem()
	}
	st, _ := t.Underlying().(*types.Struct)
	return st, t
}

func zeroVal(t types.Type) Val {
	switch kindOf(t) {
	case KInt:
		return vInt("0").withT(t)
	case KBool:
		return vBool("false").withT(t)
	case KStr:
		return vStr(`""`).withT(t)
	case KBytes:
		return vBytes(`""`, "true").withT(t)
	case KRef:
		return vRef("0").withT(t)
	case KStruct:
		st := t.Underlying().(*types.Struct)
		v := Val{K: KStruct, T: t}
		for i := 0; i < st.NumFields(); i++ {
			v.F = append(v.F, zeroVal(st.Field(i).Type()))
		}
		return v
	}
	return vUnit()
}

func valEq(a, b Val) string {
	if a.K != b.K {
		// nil comparisons between ref-like kinds
		if a.K == KBytes && b.K == KRef {
			return a.A[1]
		}
		if a.K == KRef && b.K == KBytes {
			return b.A[1]
		}
		panic(fmt.Sprintf("valEq: kind mismatch %v vs %v", a.K, b.K))
	}
	switch a.K {
	case KBytes:
		return sAnd(sEq(a.A[0], b.A[0]), sEq(a.A[1], b.A[1]))
	case KStruct, KTuple:
		var cs []string
		for i := range a.F {
			cs = append(cs, valEq(a.F[i], b.F[i]))
		}
		return sAnd(cs...)
	case KUnit:
		return "true"
	}
	return sEq(a.A[0], b.A[0])
}

func valIte(c string, a, b Val) Val {
	if c == "true" {
		return a
	}
	if c == "false" {
		return b
	}
	r := Val{K: a.K, T: a.T}
	if a.K != b.K {
		panic(fmt.Sprintf("valIte: kind mismatch %v vs %v", a.K, b.K))
	}
	for i := range a.A {
		r.A = append(r.A, sIte(c, a.A[i], b.A[i]))
	}
	for i := range a.F {
		r.F = append(r.F, valIte(c, a.F[i], b.F[i]))
	}
	return r
}
