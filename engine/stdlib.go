package main

// Trusted models of the standard-library functions the library calls
// (DESIGN.md section 8.5) and of Go builtins.

import (
	"fmt"
	"go/constant"
	"go/parser"
	"go/ast"
	"go/types"
	"strings"

	"golang.org/x/tools/go/ssa"
)

func parserParseExpr(src string) (ast.Expr, error) { return parser.ParseExpr(src) }

// stdlibEffect: what the modelled standard-library functions change (for loop mod-sets).
func (e *Exec) stdlibEffect(callee *ssa.Function, ms *modSet) bool {
	switch calleeFullName(callee) {
	case "time.Now", "time.Until", "time.Since", "time.NewTicker":
		ms.ghosts["clock"] = true
		ms.alloc = true
		return true
	case "sync.(*Mutex).Lock", "sync.(*RWMutex).Lock", "sync.(*RWMutex).RLock":
		// taking a lock re-reads the fields its monitor protects
		for _, fd := range e.P.CS.Fields {
			if fd.Mode != "monitor" {
				continue
			}
			var pk *types.Package
			if sp := e.P.SPkgs[fd.PkgPath]; sp != nil {
				pk = sp.Pkg
			}
			if t := resolveTypeIn(e.P, pk, fd.Type); t != nil {
				if stt, T := structOf(t); stt != nil {
					for i := 0; i < stt.NumFields(); i++ {
						if stt.Field(i).Name() == fd.Field {
							e.addFieldArrs(ms, T, fd.Field, stt.Field(i).Type())
						}
					}
				}
			}
		}
		return true
	}
	return false
}

func calleeFullName(fn *ssa.Function) string {
	if fn.Pkg != nil {
		return fn.Pkg.Pkg.Path() + "." + fn.RelString(fn.Pkg.Pkg)
	}
	return fn.String()
}

func (e *Exec) execBuiltin(fr *Frame, st *State, in ssa.CallInstruction, c *ssa.CallCommon, b *ssa.Builtin) Val {
	args := c.Args
	switch b.Name() {
	case "len", "cap":
		v := e.val(fr, args[0], st)
		if b.Name() == "cap" {
			if _, isSlice := args[0].Type().Underlying().(*types.Slice); isSlice {
				// the capacity of a slice is not part of its value: any number not below its length
				var ln string
				if v.K == KBytes || v.K == KStr {
					ln = sLen(v.A[0])
				} else if v.Elems != nil {
					ln = sInt(int64(len(v.Elems)))
				} else {
					ln = e.seqLen(st, v.t())
				}
				c := e.S.Fresh("cap", "Int")
				e.S.Assert(sx(">=", c, ln))
				return vInt(c).withT(types.Typ[types.Int])
			}
		}
		switch v.K {
		case KStr, KBytes:
			return vInt(sLen(v.A[0])).withT(types.Typ[types.Int])
		case KRef:
			switch t := args[0].Type().Underlying().(type) {
			case *types.Slice:
				if v.Elems != nil {
					return vInt(sInt(int64(len(v.Elems))))
				}
				_ = t
				return vInt(e.seqLen(st, v.t())).withT(types.Typ[types.Int])
			case *types.Map:
				return vInt(e.mapLen(st, v.t(), t))
			case *types.Chan:
				n := e.S.Fresh("chanlen", "Int")
				e.S.Assert(sx("<=", "0", n))
				return vInt(n)
			}
		}
	case "append":
		x := e.val(fr, args[0], st)
		if isByteSlice(args[0].Type()) {
			// a []byte that was sent over a channel must not be appended to
			e.checkWritable(fr, st, in.(ssa.Instruction), x, "append")
			if ls, ok := args[1].Type().Underlying().(*types.Basic); ok && ls.Info()&types.IsString != 0 {
				y := e.val(fr, args[1], st)
				return vBytes(sConcat(x.A[0], y.t()), sAnd(x.A[1], sEq(sx("str.len", y.t()), "0"))).withT(args[0].Type())
			}
			y := coerce(e.val(fr, args[1], st), args[0].Type())
			x = coerce(x, args[0].Type())
			r := vBytes(e.S.Define("app", "String", sConcat(x.A[0], y.A[0])), sAnd(x.A[1], sEq(sx("str.len", y.A[0]), "0"))).withT(args[0].Type())
			return r
		}
		sl := args[0].Type().Underlying().(*types.Slice)
		y := e.val(fr, args[1], st)
		n, srt := e.seqArr(sl.Elem())
		xs := e.sel(st, n, srt, x.t())
		xl := e.seqLen(st, x.t())
		r := e.alloc(st, "app", nil)
		if y.Elems != nil {
			c := xs
			for i, el := range y.Elems {
				c = sx("store", c, sx("+", xl, sInt(int64(i))), elemTerm(el))
			}
			e.setSeq(st, r, sl.Elem(), c, sx("+", xl, sInt(int64(len(y.Elems)))))
		} else {
			// concatenation with a slice of unknown length: element-wise axiom
			ys := e.sel(st, n, srt, y.t())
			yl := e.seqLen(st, y.t())
			c := e.S.Fresh("concat", srt)
			e.S.Assert("(forall ((i Int)) (! (= (select " + c + " i) (ite (< i " + xl + ") (select " + xs + " i) (select " + ys + " (- i " + xl + ")))) :pattern ((select " + c + " i))))")
			e.setSeq(st, r, sl.Elem(), c, sx("+", xl, yl))
			e.note("%s: append of a slice of unknown length uses a quantified element-wise axiom", e.name)
		}
		// nil-ness: appending nothing to nil stays nil
		res := vRef(r).withT(args[0].Type())
		if x.Elems != nil && y.Elems != nil {
			res.Elems = append(append([]Val{}, x.Elems...), y.Elems...)
		} else if isNilConst(x) && y.Elems != nil {
			res.Elems = append([]Val{}, y.Elems...)
		}
		return res
	case "close":
		e.execClose(fr, st, in, args[0])
		return vUnit()
	case "delete":
		e.execMapDelete(fr, st, args[0], args[1])
		return vUnit()
	case "recover":
		return vRef("0")
	case "print", "println":
		return vUnit()
	case "min", "max":
		a, b2 := e.val(fr, args[0], st), e.val(fr, args[1], st)
		if b.Name() == "min" {
			return vInt(sIte(sx("<=", a.t(), b2.t()), a.t(), b2.t()))
		}
		return vInt(sIte(sx(">=", a.t(), b2.t()), a.t(), b2.t()))
	case "copy":
		e.unsupported("%s: builtin copy", e.name)
		return vInt(e.S.Fresh("copied", "Int"))
	}
	e.unsupported("%s: builtin %s", e.name, b.Name())
	return e.freshVal("bi", in.Value().Type(), kindOf(in.Value().Type()))
}

func isNilConst(v Val) bool { return v.K == KRef && v.t() == "0" }

// seqElems returns the statically known elements of a [][]byte / []any value.
func (e *Exec) seqElems(v Val) ([]Val, bool) {
	if v.Elems != nil {
		return v.Elems, true
	}
	if isNilConst(v) {
		return []Val{}, true
	}
	return nil, false
}

func (e *Exec) newError(st *State, why string) Val {
	r := e.alloc(st, "err", nil)
	return vRef(r)
}

func (e *Exec) execStdlib(fr *Frame, st *State, in ssa.CallInstruction, c *ssa.CallCommon, callee *ssa.Function, rt types.Type) Val {
	name := calleeFullName(callee)
	arg := func(i int) Val { return e.val(fr, c.Args[i], st) }
	if xf := e.P.CS.Externs[name]; xf != nil {
		// assumed contract of a function outside the module (listed in the trusted base)
		e.note("extern-contract: %s (assumed)", name)
		return e.callModular(fr, st, in.(ssa.Instruction), xf, callee, name, e.callArgs(fr, st, c), rt)
	}
	for _, a := range c.Args {
		if mc, ok := a.(*ssa.MakeClosure); ok {
			v := e.val(fr, mc, st)
			if ci, ok := e.closures[v.t()]; ok {
				e.havocCaptured(st, ci, map[*ssa.Function]bool{})
			}
		}
	}
	switch name {
	case "bytes.Index":
		s, sep := arg(0), arg(1)
		r := e.S.Define("idx", "Int", sx("str.indexof", asStr(s), asStr(sep), "0"))
		return vInt(r).withT(rt)
	case "bytes.Contains":
		return vBool(sx("str.contains", asStr(arg(0)), asStr(arg(1)))).withT(rt)
	case "strings.Contains":
		return vBool(sx("str.contains", asStr(arg(0)), asStr(arg(1)))).withT(rt)
	case "bytes.Equal":
		return vBool(sEq(asStr(arg(0)), asStr(arg(1)))).withT(rt)
	case "bytes.HasPrefix", "strings.HasPrefix":
		return vBool(sx("str.prefixof", asStr(arg(1)), asStr(arg(0)))).withT(rt)
	case "bytes.HasSuffix", "strings.HasSuffix":
		return vBool(sx("str.suffixof", asStr(arg(1)), asStr(arg(0)))).withT(rt)
	case "bytes.Join":
		list, sep := arg(0), coerce(arg(1), types.NewSlice(types.Typ[types.Uint8]))
		if els, ok := e.seqElems(list); ok {
			var parts []string
			for i, el := range els {
				if i > 0 {
					parts = append(parts, sep.A[0])
				}
				parts = append(parts, asStr(el))
			}
			// bytes.Join returns an empty non-nil slice for an empty list
			return vBytes(e.S.Define("join", "String", sConcat(parts...)), "false").withT(rt)
		}
		seq := e.seqOf(st, list.t(), types.NewSlice(types.Typ[types.Uint8]))
		e.S.DeclareFun("join", []string{"(Array Int String)", "Int", "String"}, "String")
		return vBytes(e.S.Define("join", "String", sx("join", seq, e.seqLen(st, list.t()), sep.A[0])), "false").withT(rt)
	case "strconv.Itoa":
		n := arg(0).t()
		return vStr(e.S.Define("itoa", "String", decTerm(n))).withT(rt)
	case "strconv.Atoi":
		s := asStr(arg(0))
		ok := sAnd(isIntTerm(s), sx("<", atoiTerm(s), "9223372036854775808"), sx(">=", atoiTerm(s), "(- 9223372036854775808)"))
		okc := e.S.Define("atoi_ok", "Bool", ok)
		errv := e.newError(st, "atoi")
		val := e.S.Fresh("atoi", "Int")
		e.S.Assert(sImp(okc, sEq(val, atoiTerm(s))))
		return Val{K: KTuple, T: rt, F: []Val{vInt(val), vRef(sIte(okc, "0", errv.t()))}}
	case "strconv.FormatUint", "strconv.FormatInt":
		n := arg(0).t()
		if bc, ok := c.Args[1].(*ssa.Const); ok && bc.Int64() == 10 {
			return vStr(e.S.Define("fmtint", "String", decTerm(n))).withT(rt)
		}
		e.S.DeclareFun("formatBase", []string{"Int", "Int"}, "String")
		return vStr(sx("formatBase", n, arg(1).t())).withT(rt)
	case "strconv.ParseUint":
		s := asStr(arg(0))
		base, bits := arg(1).t(), arg(2).t()
		if base == "10" && bits == "64" {
			ok := sAnd(sx("str.in_re", s, `(re.+ (re.range "0" "9"))`), sx("<", sx("str.to_int", s), "18446744073709551616"))
			okc := e.S.Define("pu_ok", "Bool", ok)
			errv := e.newError(st, "parseuint")
			val := e.S.Fresh("pu", "Int")
			e.S.Assert(sx("<=", "0", val))
			e.S.Assert(sImp(okc, sEq(val, sx("str.to_int", s))))
			return Val{K: KTuple, T: rt, F: []Val{vInt(val), vRef(sIte(okc, "0", errv.t()))}}
		}
	case "strconv.ParseFloat":
		s := asStr(arg(0))
		e.S.DeclareFun("parseFloatOk", []string{"String"}, "Bool")
		e.S.DeclareFun("parseFloat", []string{"String"}, "Int")
		errv := e.newError(st, "parsefloat")
		return Val{K: KTuple, T: rt, F: []Val{vInt(sx("parseFloat", s)), vRef(sIte(sx("parseFloatOk", s), "0", errv.t()))}}
	case "strconv.FormatFloat":
		e.S.DeclareFun("formatFloat", []string{"Int", "Int", "Int", "Int"}, "String")
		return vStr(sx("formatFloat", arg(0).t(), arg(1).t(), arg(2).t(), arg(3).t())).withT(rt)
	case "time.(Time).Format":
		e.S.DeclareFun("timeFormat", []string{"Int", "String"}, "String")
		return vStr(sx("timeFormat", arg(0).t(), arg(1).t())).withT(rt)
	case "time.Parse":
		e.S.DeclareFun("timeParseOk", []string{"String", "String"}, "Bool")
		e.S.DeclareFun("timeParse", []string{"String", "String"}, "Int")
		errv := e.newError(st, "timeparse")
		l, s := arg(0).t(), arg(1).t()
		return Val{K: KTuple, T: rt, F: []Val{vInt(sx("timeParse", l, s)), vRef(sIte(sx("timeParseOk", l, s), "0", errv.t()))}}
	case "fmt.Errorf", "errors.New":
		return e.newError(st, name).withT(rt)
	case "fmt.Sprintf":
		if fc, ok := c.Args[0].(*ssa.Const); ok {
			f := constant.StringVal(fc.Value)
			list := arg(1)
			if els, ok := e.seqElems(list); ok {
				if r, ok := e.sprintf(st, f, els); ok {
					return vStr(e.S.Define("sprintf", "String", r)).withT(rt)
				}
			}
		}
		return vStr(e.S.Fresh("sprintf", "String")).withT(rt)
	case "reflect.TypeOf":
		return vRef(e.S.Fresh("rtype", "Int")).withT(rt)
	case "math.Max":
		a, b := arg(0).t(), arg(1).t()
		return vInt(sIte(sx(">=", a, b), a, b)).withT(rt)
	case "errors.Is":
		return vBool(e.S.Fresh("errors_is", "Bool")).withT(rt)
	case "strings.Join":
		list := arg(0)
		if els, ok := e.seqElems(list); ok {
			var parts []string
			for i, el := range els {
				if i > 0 {
					parts = append(parts, arg(1).t())
				}
				parts = append(parts, asStr(el))
			}
			return vStr(sConcat(parts...)).withT(rt)
		}
	}
	if v, ok := e.execStdlibSync(fr, st, in, c, callee, name, rt); ok {
		return v
	}
	e.note("unknown-stdlib: %s (result unconstrained, no heap effect assumed)", name)
	r := e.freshVal("std_"+sanitize(callee.Name()), rt, kindOf(rt))
	e.typeFacts(r, rt, st)
	return r
}

func decTerm(n string) string {
	return sIte(sx(">=", n, "0"), sx("str.from_int", n), sConcat(`"-"`, sx("str.from_int", sx("-", n))))
}

// sprintf supports the verbs the library uses with statically known
// arguments: %s %d %v and %0Ns (left zero padding of a string).
func (e *Exec) sprintf(st *State, f string, els []Val) (string, bool) {
	var parts []string
	ai := 0
	for i := 0; i < len(f); i++ {
		if f[i] != '%' {
			j := i
			for j < len(f) && f[j] != '%' {
				j++
			}
			parts = append(parts, sStr(f[i:j]))
			i = j - 1
			continue
		}
		j := i + 1
		for j < len(f) && strings.ContainsRune("0123456789", rune(f[j])) {
			j++
		}
		if j >= len(f) || ai >= len(els) {
			return "", false
		}
		flags := f[i+1 : j]
		verb := f[j]
		a := els[ai]
		ai++
		if a.Boxed == nil {
			return "", false
		}
		bv := *a.Boxed
		switch {
		case verb == 's' && (bv.K == KStr || bv.K == KBytes):
			s := bv.A[0]
			if flags == "" {
				parts = append(parts, s)
			} else if flags[0] == '0' {
				var w int
				fmt.Sscanf(flags, "%d", &w)
				// left zero padding to width w (fmt pads strings with zeros when the 0 flag is given)
				t := s
				for k := w - 1; k >= 0; k-- {
					_ = k
				}
				pad := s
				for k := 1; k <= w; k++ {
					pad = sIte(sEq(sx("str.len", s), sInt(int64(w-k))), sConcat(sStr(strings.Repeat("0", k)), s), pad)
				}
				t = pad
				parts = append(parts, t)
			} else {
				return "", false
			}
		case verb == 'd' && bv.K == KInt && flags == "":
			parts = append(parts, decTerm(bv.t()))
		default:
			return "", false
		}
		i = j
	}
	return sConcat(parts...), true
}
