package main

import (
	"fmt"
	"go/ast"
	"go/types"
	"os"
	"sort"
	"strings"

	"golang.org/x/tools/go/packages"
	"golang.org/x/tools/go/ssa"
	"golang.org/x/tools/go/ssa/ssautil"
)

const modPath = "github.com/b2broker/simplefix-go"

type Prog struct {
	Repo    string
	SSA     *ssa.Program
	Pkgs    []*packages.Package
	SPkgs   map[string]*ssa.Package
	CS      *Contracts
	FnByKey map[string]*ssa.Function // pkgpath::key
	tags    map[string]int
	tagName map[int]string
	ownCache map[string]string
	relCache map[string]bool
	fdCache  map[string]*FieldDecl
	depCache map[string]map[*ssa.Function]bool
	depIface map[string]map[string]bool // prop -> "pkgpath::Iface.Method" invoked by the property's functions
	refinedSet map[*ssa.Function]bool
}

func loadProg(repo string, patterns []string) *Prog {
	cfg := &packages.Config{
		Mode:       packages.LoadAllSyntax,
		Dir:        repo,
		BuildFlags: []string{"-tags=verif"},
		Env:        append(os.Environ(), "GOFLAGS=-mod=mod", "GOPROXY=off", "GOSUMDB=off", "GOTOOLCHAIN=local"),
	}
	pkgs, err := packages.Load(cfg, patterns...)
	if err != nil {
		fatalf("load: %v", err)
	}
	bad := false
	for _, p := range pkgs {
		for _, e := range p.Errors {
			fmt.Fprintf(os.Stderr, "govc: load error: %v\n", e)
			bad = true
		}
	}
	if bad {
		os.Exit(3)
	}
	prog, spkgs := ssautil.AllPackages(pkgs, ssa.GlobalDebug|ssa.InstantiateGenerics)
	p := &Prog{Repo: repo, SSA: prog, Pkgs: pkgs, SPkgs: map[string]*ssa.Package{}, FnByKey: map[string]*ssa.Function{},
		tags: map[string]int{}, tagName: map[int]string{}}
	for i, sp := range spkgs {
		if sp == nil {
			continue
		}
		sp.Build()
		p.SPkgs[pkgs[i].PkgPath] = sp
	}
	// index functions (including methods and closures) of the module's packages
	for _, sp := range p.SPkgs {
		for _, m := range sp.Members {
			switch m := m.(type) {
			case *ssa.Function:
				p.indexFn(m)
			case *ssa.Type:
				for _, t := range []types.Type{m.Type(), types.NewPointer(m.Type())} {
					ms := prog.MethodSets.MethodSet(t)
					for i := 0; i < ms.Len(); i++ {
						fn := prog.MethodValue(ms.At(i))
						if fn != nil && fn.Pkg == sp && fn.Synthetic == "" {
							p.indexFn(fn)
						}
					}
				}
			}
		}
	}
	return p
}

func (p *Prog) indexFn(fn *ssa.Function) {
	if fn.Pkg == nil {
		return
	}
	k := fn.Pkg.Pkg.Path() + "::" + fnKey(fn)
	if p.FnByKey[k] != nil {
		return
	}
	p.FnByKey[k] = fn
	for _, a := range fn.AnonFuncs {
		p.indexFn(a)
	}
}

func fnKey(fn *ssa.Function) string {
	if fn.Pkg == nil {
		return fn.String()
	}
	return fn.RelString(fn.Pkg.Pkg)
}

func inModule(fn *ssa.Function) bool {
	pk := fn.Pkg
	if pk == nil && fn.Parent() != nil {
		pk = fn.Parent().Pkg
	}
	if pk == nil {
		return false
	}
	path := pk.Pkg.Path()
	return path == modPath || strings.HasPrefix(path, modPath+"/")
}

func (p *Prog) tagOf(t types.Type) int {
	k := types.TypeString(types.Unalias(t), nil)
	if n, ok := p.tags[k]; ok {
		return n
	}
	n := len(p.tags) + 1
	p.tags[k] = n
	p.tagName[n] = k
	return n
}

// contractFor finds the contract of a function (closures are bound via
// Parent#Label with an anchor).
func (p *Prog) contractFor(fn *ssa.Function) *FuncContract {
	if fn.Pkg == nil && fn.Parent() == nil {
		return nil
	}
	if fn.Parent() != nil {
		return p.closureContract(fn)
	}
	return p.CS.Funcs[fn.Pkg.Pkg.Path()+"::"+fnKey(fn)]
}

func (p *Prog) closureContract(fn *ssa.Function) *FuncContract {
	parent := fn.Parent()
	if parent.Pkg == nil {
		return nil
	}
	pk := parent.Pkg.Pkg.Path()
	pkey := fnKey(parent)
	var cands []*FuncContract
	for _, fc := range p.CS.Funcs {
		if fc.IsClosure && fc.PkgPath == pk && fc.Parent == pkey {
			cands = append(cands, fc)
		}
	}
	sort.Slice(cands, func(i, j int) bool { return cands[i].Line < cands[j].Line })
	for _, fc := range cands {
		if p.bindClosure(parent, fc) == fn {
			return fc
		}
	}
	return nil
}

// bindClosure resolves Parent#Label: the anchor is a name the body must
// mention (a field, a callee, a method or a string constant); among the
// parent's closures in source order the first matching one is taken. An
// anchor of the form $N selects the N-th closure.
func (p *Prog) bindClosure(parent *ssa.Function, fc *FuncContract) *ssa.Function {
	anchor := fc.Anchor
	if strings.HasPrefix(anchor, "$") {
		var n int
		fmt.Sscanf(anchor, "$%d", &n)
		if n >= 1 && n <= len(parent.AnonFuncs) {
			return parent.AnonFuncs[n-1]
		}
		return nil
	}
	words := strings.Fields(anchor)
	for _, a := range parent.AnonFuncs {
		all := true
		for _, w := range words {
			if !mentions(a, w) {
				all = false
				break
			}
		}
		if all {
			return a
		}
	}
	return nil
}

func mentions(fn *ssa.Function, name string) bool {
	for _, fv := range fn.FreeVars {
		if fv.Name() == name {
			return true
		}
	}
	for _, b := range fn.Blocks {
		for _, in := range b.Instrs {
			switch in := in.(type) {
			case *ssa.FieldAddr:
				st, _ := structOf(in.X.Type())
				if st != nil && st.Field(in.Field).Name() == name {
					return true
				}
			case *ssa.Field:
				st, _ := structOf(in.X.Type())
				if st != nil && st.Field(in.Field).Name() == name {
					return true
				}
			case ssa.CallInstruction:
				c := in.Common()
				if c.IsInvoke() && c.Method.Name() == name {
					return true
				}
				if sc := c.StaticCallee(); sc != nil && sc.Name() == name {
					return true
				}
			}
			if v, ok := in.(ssa.Value); ok {
				_ = v
			}
		}
	}
	return false
}

// identName returns the name of an identifier expression.
func identName(e ast.Expr) string {
	if id, ok := e.(*ast.Ident); ok {
		return id.Name
	}
	return ""
}
