package main

import (
	"os"
	"fmt"
	"go/ast"
	"go/token"
	"go/types"
	"strings"

	"golang.org/x/tools/go/ssa"
)

// funcEnv: the environment naming parameters, receiver, free variables and
// ghost state of the function being verified (fr must be the top frame or an
// inlined frame of a contracted function).
func (e *Exec) funcEnv(fr *Frame, st *State) *Env {
	env := &Env{e: e, vars: map[string]Val{}, st: st, ctx: e.name}
	if fr.fn.Pkg != nil {
		env.pkg = fr.fn.Pkg.Pkg
	} else if fr.fn.Parent() != nil && fr.fn.Parent().Pkg != nil {
		env.pkg = fr.fn.Parent().Pkg.Pkg
	}
	fc := e.fc
	if fr.top && fc != nil {
		e.bindParams(env, fc, fr.fn, fr.params)
	}
	for i, p := range fr.fn.Params {
		if _, ok := env.vars[p.Name()]; !ok && i < len(fr.params) {
			env.vars[p.Name()] = fr.params[i]
		}
	}
	// free variables: cells, auto-dereferenced
	for i, fv := range fr.fn.FreeVars {
		if i < len(fr.fvals) {
			pt, ok := fv.Type().Underlying().(*types.Pointer)
			if ok {
				if _, isStruct := pt.Elem().Underlying().(*types.Struct); !isStruct || isOpaqueStruct(pt.Elem()) {
					if cv, ok := e.fvDeref[fv]; ok && fr.top {
						env.vars[fv.Name()] = cv
					} else if fr.top && !storedTo(fr.fn, fv) {
						cv := e.nameVal("fv_"+fv.Name()+"_val", e.readCell(st, fr.fvals[i].t(), pt.Elem()), pt.Elem())
						e.fvDeref[fv] = cv
						env.vars[fv.Name()] = cv
					} else {
						env.vars[fv.Name()] = e.readCell(st, fr.fvals[i].t(), pt.Elem())
					}
					env.vars["&"+fv.Name()] = fr.fvals[i]
					continue
				}
			}
			env.vars[fv.Name()] = fr.fvals[i]
		}
	}
	// source-level locals: the value a named variable has at the current program
	// point is its nearest definition on the dominator chain - a phi carrying the
	// variable's name, or a DebugRef (an assignment to, or a use of, the variable)
	if e.siteFrame(fr) && e.curBlock != nil && e.curBlock.Parent() == fr.fn {
		nrange := 0
		loops := findLoops(fr.fn)
		var scanning *ssa.BasicBlock
		set := func(name string, v Val) {
			if name == "rangeindex" {
				// only loops that contain the current point
				if li := loops[scanning]; li == nil || !li.blocks[e.curBlock] {
					return
				}
				// range loops: iter is the innermost loop's iteration count, iter2 the next outer one, ...
				nrange++
				if nrange == 1 {
					env.vars["iter"] = vInt(sx("+", v.t(), "1"))
				} else {
					env.vars[fmt.Sprintf("iter%d", nrange)] = vInt(sx("+", v.t(), "1"))
				}
				return
			}
			if _, done := env.vars["\x00"+name]; done {
				return
			}
			env.vars["\x00"+name] = Val{}
			env.vars[name] = v
		}
		scan := func(b *ssa.BasicBlock, upto ssa.Instruction) {
			scanning = b
			end := len(b.Instrs)
			if upto != nil {
				for i, in := range b.Instrs {
					if in == upto {
						end = i + 1
						break
					}
				}
			}
			for i := end - 1; i >= 0; i-- {
				switch x := b.Instrs[i].(type) {
				case *ssa.DebugRef:
					if x.IsAddr {
						continue
					}
					id, ok := x.Expr.(*ast.Ident)
					if !ok {
						continue
					}
					if obj := x.Object(); obj != nil && !types.Identical(obj.Type(), x.X.Type()) {
						continue
					}
					if v, bound := fr.vals[x.X]; bound {
						set(id.Name, v)
					}
				case *ssa.Phi:
					if v, bound := fr.vals[x]; bound && x.Comment != "" {
						set(x.Comment, v)
						// a counted loop `for i := a; ...; i++`: iter (iter2, ...) is the
						// number of completed iterations, as for range loops
						if li := loops[b]; li != nil && li.blocks[e.curBlock] && x.Comment != "rangeindex" && !hasRangeIndex(b) {
							if init, ok := countedLoopInit(li, x); ok {
								iv := e.val(fr, init, env.st)
								if iv.K == KInt && v.K == KInt {
									set("rangeindex", vInt(sx("-", sx("-", v.t(), iv.t()), "1")))
								}
							}
						}
					}
				}
			}
		}
		var upto ssa.Instruction
		if e.curInstr != nil && e.curInstr.Block() == e.curBlock {
			upto = e.curInstr
		}
		scan(e.curBlock, upto)
		for b := e.curBlock.Idom(); b != nil; b = b.Idom() {
			scan(b, nil)
		}
		for k := range env.vars {
			if strings.HasPrefix(k, "\x00") {
				delete(env.vars, k)
			}
		}
	}
	for n, v := range e.siteVars {
		env.vars[n] = v
	}
	for n, v := range e.forallVars {
		if _, ok := env.vars[n]; !ok {
			env.vars[n] = v
		}
	}
	// source-level locals recorded by DebugRef (unique definitions only)
	for name, v := range e.debugVars(fr) {
		if _, ok := env.vars[name]; !ok {
			env.vars[name] = v
		}
	}
	entry := fr.entry
	if !fr.top && e.siteFrame(fr) && fr.parent != nil {
		entry = fr.parent.entry // old() in a site section means the state at the entry of the function under contract
	}
	if entry != nil && e.siteFrame(fr) {
		o := &Env{e: e, pkg: env.pkg, vars: map[string]Val{}, st: entry, ctx: e.name + " old()"}
		for k, v := range env.vars {
			o.vars[k] = v
		}
		// free variables in the old state
		for i, fv := range fr.fn.FreeVars {
			if i < len(fr.fvals) {
				if pt, ok := fv.Type().Underlying().(*types.Pointer); ok {
					if _, isStruct := pt.Elem().Underlying().(*types.Struct); !isStruct || isOpaqueStruct(pt.Elem()) {
						o.vars[fv.Name()] = e.readCell(fr.entry, fr.fvals[i].t(), pt.Elem())
					}
				}
			}
		}
		env.old = o
	}
	return env
}

func (e *Exec) debugVars(fr *Frame) map[string]Val {
	res := map[string]Val{}
	multi := map[string]bool{}
	seen := map[string]ssa.Value{}
	for _, b := range fr.fn.Blocks {
		for _, in := range b.Instrs {
			d, ok := in.(*ssa.DebugRef)
			if !ok || d.IsAddr {
				continue
			}
			id, ok := d.Expr.(*ast.Ident)
			if !ok {
				continue
			}
			if obj := d.Object(); obj != nil && !types.Identical(obj.Type(), d.X.Type()) {
				continue // the identifier used in a converting position (e.g. boxed into an interface)
			}
			if prev, ok := seen[id.Name]; ok && prev != d.X {
				multi[id.Name] = true
			}
			seen[id.Name] = d.X
		}
	}
	for name, v := range seen {
		if multi[name] {
			continue
		}
		if val, ok := fr.vals[v]; ok {
			res[name] = val
		}
	}
	return res
}

// bindParams names actual values after the contract's signature.
func (e *Exec) bindParams(env *Env, fc *FuncContract, fn *ssa.Function, actual []Val) {
	i := 0
	if fc.Recv != nil && fn.Signature.Recv() != nil {
		if i < len(actual) {
			env.vars[fc.Recv.Name] = actual[i]
			env.vars["self"] = actual[i]
		}
		i++
	} else if fn.Signature.Recv() != nil {
		i++
	}
	for _, p := range fc.Params {
		if i < len(actual) {
			env.vars[p.Name] = actual[i]
		}
		i++
	}
}

func (e *Exec) bindResults(env *Env, fc *FuncContract, results []Val) {
	for i, r := range fc.Results {
		if i < len(results) {
			env.vars[r.Name] = results[i]
		}
	}
	if len(results) == 1 {
		env.vars["result"] = results[0]
	}
}

// evalWitnesses binds `witness` names in order.
func (e *Exec) evalWitnesses(env *Env, fc *FuncContract) {
	for _, w := range fc.Witness {
		if w.Kind != "witness" {
			continue
		}
		v := e.evalExpr(env, w.Expr)
		env.vars[w.Name] = e.nameVal("w_"+w.Name, v, v.T)
	}
}

func (e *Exec) checkPosts(fr *Frame, st *State, ret *ssa.Return, vals []Val) {
	if len(e.fc.Epilogue) > 0 {
		// ghost code: assignments to ghost variables at return
		st = st.clone()
		genv := e.funcEnv(fr, st)
		e.bindResults(genv, e.fc, vals)
		for _, g := range e.fc.Epilogue {
			v := e.evalExpr(genv, g.Expr)
			cur, ok := st.ghost[g.Name]
			if !ok {
				fatalf("%s:%d: epilogue assigns an undeclared ghost variable %s", g.File, g.Line, g.Name)
			}
			st.ghost[g.Name] = castTo(v, cur.K, cur.T)
		}
	}
	env := e.funcEnv(fr, st)
	e.bindResults(env, e.fc, vals)
	e.evalWitnesses(env, e.fc)
	for _, lm := range e.fc.Lemmas {
		e.instLemma(env, lm, st)
	}
	suffix := ""
	if e.retCount > 1 || len(returnsOf(fr.fn)) > 1 {
		suffix = fmt.Sprintf("@ret%d", returnOrdinal(fr.fn, ret))
	}
	for i, c := range e.fc.Ensures {
		g := e.evalBool(env, c.Expr)
		lbl := c.Label
		if lbl == "" {
			lbl = fmt.Sprintf("%d", i+1)
		}
		o := e.obligeNoAssume(st, "post:"+lbl+suffix, "post", c.Tags, g, c.Text, ret.Pos())
		o.Clause = c.Expr
		o.Results = vals
		for _, v := range vals {
			o.ResultTerms = append(o.ResultTerms, flatten(v)...)
		}
		o.Pos = posOf(e.P, ret.Pos())
	}
	// lock balance: a lock acquired in this function is released again on every return
	for _, k := range sortedKeys(st.mayHeld) {
		t := st.mayHeld[k]
		short := k
		if i := strings.Index(short, "@"); i >= 0 {
			short = short[:i]
		}
		lo := e.obligeNoAssume(st, "lock:released:"+short+suffix, "lockbalance", nil, sNot(t), "a lock acquired in this function ("+short+") is released again before the function returns", ret.Pos())
		lo.Pos = posOf(e.P, ret.Pos())
	}
	if e.fc.ChanResult != "" && len(vals) == 1 {
		// the contract promises the channel behind a particular ghost log
		cl := e.chanLogOf(vals[0])
		e.obligeNoAssume(st, "post:yields"+suffix, "post", e.fc.ChanTags, boolStr(cl != nil && cl.N == e.fc.ChanResult), "the result is the channel logged by "+e.fc.ChanResult, ret.Pos())
	}
	e.checkModifies(fr, st, ret, suffix)
	if e.cover {
		o := e.obligeNoAssume(st, "cover:return"+suffix, "cover", nil, "false", "return is reachable under the preconditions", ret.Pos())
		o.ExpectSat = true
		o.CoverGroup = e.name + "#return"
		// vacuity of conditional clauses: the premise of imp(A, B) must be satisfiable at some return
		for i, c := range e.fc.Ensures {
			call, ok := c.Expr.(*ast.CallExpr)
			if !ok || identName(call.Fun) != "imp" || len(call.Args) != 2 {
				continue
			}
			lbl := c.Label
			if lbl == "" {
				lbl = fmt.Sprintf("%d", i+1)
			}
			prem := e.evalBool(env, call.Args[0])
			po := e.obligeNoAssume(st, "cover:premise:"+lbl+suffix, "cover", nil, sNot(prem), "premise of clause "+lbl+" is satisfiable", ret.Pos())
			po.ExpectSat = true
			po.CoverGroup = e.name + "#premise:" + lbl
		}
	}
}

func (e *Exec) obligeNoAssume(st *State, name, kind string, props []string, goal, desc string, pos interface{ IsValid() bool }) *Obligation {
	full := e.name + "#" + name
	o := &Obligation{Name: full, Props: props, Kind: kind, Func: e.name, Desc: desc,
		N: e.S.Len(), Hyp: []string{st.reach}, Goal: goal, Script: e.S, Inputs: append([]string{}, e.inputs...), Ex: e,
		Splits: append([]string{}, e.conds...)}
	e.obls = append(e.obls, o)
	return o
}

func returnsOf(fn *ssa.Function) []*ssa.Return {
	var rs []*ssa.Return
	for _, b := range fn.Blocks {
		for _, in := range b.Instrs {
			if r, ok := in.(*ssa.Return); ok {
				rs = append(rs, r)
			}
		}
	}
	return rs
}

func returnOrdinal(fn *ssa.Function, ret *ssa.Return) int {
	for i, r := range returnsOf(fn) {
		if r == ret {
			return i + 1
		}
	}
	return 0
}

// checkModifies: frame obligations — heap arrays not named in `modifies`
// must be unchanged at return (only for functions that declare pure or modifies).
func (e *Exec) checkModifies(fr *Frame, st *State, ret *ssa.Return, suffix string) {
	if !e.fc.Pure && len(e.fc.Modifies) == 0 {
		return
	}
	if e.havockedAll {
		e.obligeNoAssume(st, "frame:all"+suffix, "frame", e.fc.frameTags(), "false", "an uncontracted call or loop havocked the whole heap: the modifies clause cannot be checked", ret.Pos())
		return
	}
	allowedAll := map[string]bool{}
	allowedAt := map[string][]string{}
	oenv := e.funcEnv(fr, fr.entry)
	oenv.st = fr.entry
	for _, m := range e.fc.Modifies {
		m = strings.TrimSpace(m)
		if m == "*" {
			return
		}
		if _, ok := e.P.CS.Ghosts[m]; ok {
			continue
		}
		if name, argSrc, ok := ghostFieldLoc(e.P, m); ok {
			if argSrc == "*" {
				allowedAll["GF_"+name] = true
			} else if ex, err := parseExprSafe(argSrc); err == nil {
				allowedAt["GF_"+name] = append(allowedAt["GF_"+name], e.evalExpr(oenv, ex).t())
			}
			continue
		}
		dot := strings.LastIndex(m, ".")
		if dot < 0 {
			for _, n := range e.P.modArrays(e.fc, m) {
				allowedAll[n] = true
			}
			continue
		}
		baseSrc, fname := m[:dot], m[dot+1:]
		root := baseSrc
		if i := strings.Index(root, "."); i >= 0 {
			root = root[:i]
		}
		isType := !hasVar(oenv, root) && resolveTypeIn(e.P, oenv.pkg, baseSrc) != nil
		located := false
		if ex, err := parseExprSafe(baseSrc); err == nil && !isType {
			base := e.evalExpr(oenv, ex)
			if base.T != nil {
				if stt, _ := structOf(base.T); stt != nil {
					for _, an := range fieldArrays(base.T, fname) {
						allowedAt[an] = append(allowedAt[an], base.t())
					}
					located = true
				}
			}
		}
		if !located {
			names := e.P.modArrays(e.fc, m)
			if names == nil {
				return
			}
			for _, n := range names {
				allowedAll[n] = true
			}
		}
	}
	for _, a := range sortedKeys(st.heap) {
		if allowedAll[a] || isScratchArr(a) {
			continue
		}
		cur := st.heap[a]
		old := e.arrTerm(fr.entry, a, e.arrSort[a])
		if cur == old {
			continue
		}
		// values at pre-existing references (other than the listed locations) must be unchanged
		k := e.S.Fresh("frame_k", "Int")
		hyp := []string{sx("<=", "0", k), sx("<=", k, fr.entry.top)}
		for _, loc := range allowedAt[a] {
			hyp = append(hyp, sNot(sEq(k, loc)))
		}
		g := sImp(sAnd(hyp...), sEq(sx("select", cur, k), sx("select", old, k)))
		o := e.obligeNoAssume(st, "frame:"+a+suffix, "frame", e.fc.frameTags(), g, "field array "+a+" unchanged at pre-existing objects outside the modifies clause", ret.Pos())
		o.Pos = posOf(e.P, ret.Pos())
	}
}

func isScratchArr(a string) bool {
	return strings.HasPrefix(a, "BOX_") || strings.HasPrefix(a, "CELL_")
}

func (fc *FuncContract) frameTags() []string {
	seen := map[string]bool{}
	var out []string
	for _, c := range fc.Ensures {
		for _, t := range c.Tags {
			if !seen[t] {
				seen[t] = true
				out = append(out, t)
			}
		}
	}
	return out
}

// ---------------------------------------------------------------------------
// calls

func (e *Exec) callArgs(fr *Frame, st *State, c *ssa.CallCommon) []Val {
	var vs []Val
	for _, a := range c.Args {
		if ad, ok := fr.addrs[a]; ok && ad.kind != aCell {
			// pointer to a field passed as argument (e.g. atomic.AddInt64(&s.x, 1))
			v := vRef("0").withT(a.Type())
			v.Boxed = nil
			vs = append(vs, Val{K: KRef, T: a.Type(), A: []string{"0"}, Elems: nil})
			_ = v
			continue
		}
		vs = append(vs, e.val(fr, a, st))
	}
	return vs
}

func (e *Exec) execCall(fr *Frame, st *State, in ssa.CallInstruction, c *ssa.CallCommon) Val {
	v := e.execCall1(fr, st, in, c)
	if e.siteFrame(fr) && e.fc != nil {
		if cs, ok := e.callOrd[in.(ssa.Instruction)]; ok && e.hasSiteAfter(cs) {
			if val, ok := in.(ssa.Value); ok && val.Type() != nil {
				fr.vals[val] = v
			}
			var args []*Val
			for _, a := range c.Args {
				if _, isAddr := fr.addrs[a]; !isAddr {
					av := e.val(fr, a, st)
					args = append(args, &av)
				} else {
					args = append(args, nil)
				}
			}
			e.runSiteAfter(fr, st, in.(ssa.Instruction), cs, args, &v)
		}
	}
	return v
}

func (e *Exec) hasSiteAfter(cs callSite) bool {
	for _, sec := range e.fc.Calls {
		if sec.Callee == cs.name && sec.N == cs.k && (len(sec.Witness) > 0 || len(sec.Asserts) > 0 || len(sec.After) > 0 || len(sec.Set) > 0) {
			return true
		}
	}
	return false
}

// runSiteAfter executes the clauses a contract attaches to the k-th call of a
// callee (or the k-th channel send, named "send"): lemma instances, named
// witnesses, intermediate assertions and ghost assignments, in that order.
func (e *Exec) runSiteAfter(fr *Frame, st *State, in ssa.Instruction, cs callSite, args []*Val, ret *Val) {
	for _, sec := range e.fc.Calls {
		if sec.Callee != cs.name || sec.N != cs.k || (len(sec.Witness) == 0 && len(sec.Asserts) == 0 && len(sec.After) == 0 && len(sec.Set) == 0) {
			continue
		}
		cenv := e.funcEnv(fr, st)
		for i, a := range args {
			if a != nil {
				cenv.vars[fmt.Sprintf("arg%d", i)] = *a
			}
		}
		if ret != nil {
			v := *ret
			cenv.vars["ret"] = v
			if v.K == KTuple {
				for ti, tv := range v.F {
					cenv.vars[fmt.Sprintf("ret%d", ti)] = tv
				}
			}
		}
		for _, lm := range sec.After {
			e.instLemma(cenv, lm, st)
		}
		for _, w := range sec.Witness {
			if identName(w.Expr) == "reached" {
				// the call site was executed on this path (conditioned on the path)
				prev, ok := e.siteVars[w.Name]
				if !ok {
					prev = vBool("false")
				}
				e.siteVars[w.Name] = vBool(e.S.Define("w_"+w.Name, "Bool", sOr(prev.t(), st.reach)))
				continue
			}
			wv := e.evalExpr(cenv, w.Expr)
			e.siteVars[w.Name] = e.nameVal("w_"+w.Name, wv, wv.T)
			cenv.vars[w.Name] = e.siteVars[w.Name]
		}
		for i, a := range sec.Asserts {
			lbl := a.Label
			if lbl == "" {
				lbl = fmt.Sprintf("%d", i+1)
			}
			e.lastSpecKey = ""
			g := e.evalBool(cenv, a.Expr)
			e.oblige(st, fmt.Sprintf("call:%s#%d:assert:%s", cs.name, cs.k, lbl), "assert", a.Tags, g, a.Text, in.Pos())
			// `spec(args) == witness`: from here on the application is read as the
			// witness (keeps later queries free of the definitions behind it)
			if be, ok := a.Expr.(*ast.BinaryExpr); ok && be.Op == token.EQL {
				if ce, ok := be.X.(*ast.CallExpr); ok {
					if id, ok := be.Y.(*ast.Ident); ok {
						if wv, isW := e.siteVars[id.Name]; isW && e.lastSpecKey != "" && identName(ce.Fun) == e.lastSpecName {
							ents := e.specCache2[e.lastSpecKey]
							if len(ents) > 0 {
								ents[len(ents)-1].val = wv
							}
						}
					}
				}
			}
		}
		// ghost code at the site: all right-hand sides are evaluated in the state after the call
		var newv []Val
		for _, g := range sec.Set {
			newv = append(newv, e.evalExpr(cenv, g.Expr))
		}
		for i, g := range sec.Set {
			old, ok := st.ghost[g.Name]
			if !ok {
				fatalf("%s:%d: set of undeclared ghost %s", g.File, g.Line, g.Name)
			}
			st.ghost[g.Name] = castTo(newv[i], old.K, old.T)
		}
	}
}

func (e *Exec) execCall1(fr *Frame, st *State, in ssa.CallInstruction, c *ssa.CallCommon) Val {
	resT := c.Signature().Results()
	var rt types.Type = resT
	if resT.Len() == 1 {
		rt = resT.At(0).Type()
	}
	if e.siteFrame(fr) && e.fc != nil {
		if cs, ok := e.callOrd[in.(ssa.Instruction)]; ok {
			for _, sec := range e.fc.Calls {
				if sec.Callee == cs.name && sec.N == cs.k {
					cenv := e.funcEnv(fr, st)
					for i, a := range c.Args {
						if _, isAddr := fr.addrs[a]; !isAddr {
							cenv.vars[fmt.Sprintf("arg%d", i)] = e.val(fr, a, st)
						}
					}
					for _, lm := range sec.Lemmas {
						e.instLemma(cenv, lm, st)
					}
				}
			}
		}
	}
	if b, ok := c.Value.(*ssa.Builtin); ok {
		return e.execBuiltin(fr, st, in, c, b)
	}
	if c.IsInvoke() {
		return e.execInvoke(fr, st, in, c, rt)
	}
	callee := c.StaticCallee()
	if callee == nil {
		return e.execDynamicCall(fr, st, in, c, rt)
	}
	if !inModule(callee) {
		return e.execStdlib(fr, st, in, c, callee, rt)
	}
	args := e.callArgs(fr, st, c)
	var binds []Val
	if mc, ok := c.Value.(*ssa.MakeClosure); ok {
		binds = e.val(fr, mc, st).Elems
	}
	return e.callFunction(fr, st, in, callee, args, binds, rt)
}

func (e *Exec) callFunction(fr *Frame, st *State, in ssa.Instruction, callee *ssa.Function, args, binds []Val, rt types.Type) Val {
	fc := e.P.contractFor(callee)
	if fc != nil && !fc.Inline {
		return e.callModular(fr, st, in, fc, callee, dispName(callee), args, rt)
	}
	if e.canInline(callee, fr.depth) {
		return e.inlineCall(fr, st, in, callee, args, binds, rt)
	}
	e.note("uncontracted-call: %s calls %s (result and heap havocked)", dispName(fr.fn), dispName(callee))
	for i, a := range args {
		if a.Shared != "" {
			e.oblige(st, e.ordinalName(fr, in, "shared")+fmt.Sprintf(":arg%d", i), "discipline", e.sharedTags(), "false",
				fmt.Sprintf("a value that other goroutines may use at the same time (%s) is handed to %s, which has no contract", a.Shared, dispName(callee)), in.Pos())
		}
	}
	e.havocAll(st)
	r := e.freshVal("res_"+sanitize(callee.Name()), rt, kindOf(rt))
	e.typeFacts(r, rt, st)
	return r
}

func (e *Exec) canInline(callee *ssa.Function, depth int) bool {
	if len(callee.Blocks) == 0 || depth >= 5 {
		return false
	}
	for _, f := range e.inlining {
		if f == callee {
			return false
		}
	}
	n := 0
	for _, b := range callee.Blocks {
		n += len(b.Instrs)
	}
	if n > 120 {
		return false
	}
	return len(findLoops(callee)) == 0
}

func (e *Exec) inlineCall(fr *Frame, st *State, in ssa.Instruction, callee *ssa.Function, args, binds []Val, rt types.Type) Val {
	site := fmt.Sprintf("call:%d", e.ord[in])
	if !fr.top {
		site = fr.site + "/" + fmt.Sprintf("%s#call:%d", fnKey(fr.fn), localOrdinal(fr.fn, in, "call"))
	}
	nf := &Frame{fn: callee, vals: map[ssa.Value]Val{}, addrs: map[ssa.Value]*Addr{}, depth: fr.depth + 1, site: site, params: args, fvals: binds, parent: fr}
	for i, p := range callee.Params {
		if i < len(args) {
			nf.vals[p] = coerce(args[i], p.Type())
		}
	}
	for i, fv := range callee.FreeVars {
		if i < len(binds) {
			nf.vals[fv] = binds[i]
		}
	}
	e.inlining = append(e.inlining, callee)
	saved := st.defers
	st.defers = nil
	sub := st.clone()
	e.runFrame(nf, sub)
	e.inlining = e.inlining[:len(e.inlining)-1]
	if len(nf.rets) == 0 {
		// callee never returns on this path (panics): path ends
		st.reach = "false"
		return e.freshVal("noret", rt, kindOf(rt))
	}
	var sts []*State
	var conds []string
	for _, r := range nf.rets {
		sts = append(sts, r.st)
		conds = append(conds, r.st.reach)
	}
	m := e.mergeStates(sts, conds)
	*st = *m
	st.defers = saved
	// results
	nres := len(nf.rets[0].vals)
	var res []Val
	for j := 0; j < nres; j++ {
		v := nf.rets[len(nf.rets)-1].vals[j]
		for i := len(nf.rets) - 2; i >= 0; i-- {
			v = valIte(conds[i], coerce(nf.rets[i].vals[j], callee.Signature.Results().At(j).Type()), coerce(v, callee.Signature.Results().At(j).Type()))
		}
		res = append(res, v)
	}
	switch nres {
	case 0:
		return vUnit()
	case 1:
		return res[0]
	}
	return Val{K: KTuple, T: rt, F: res}
}

// callModular uses the callee's contract: assert requires, havoc modifies,
// assume ensures.
func (e *Exec) callModular(fr *Frame, st *State, in ssa.Instruction, fc *FuncContract, callee *ssa.Function, calleeName string, args []Val, rt types.Type) Val {
	fc.Used = true
	k := 0
	siteName := lastSeg(calleeName)
	if cs, ok := e.callOrd[in]; ok && e.siteFrame(fr) {
		k, siteName = cs.k, cs.name
	} else {
		e.callSeen[calleeName]++
		k = e.callSeen[calleeName]
	}
	var pk *types.Package
	if sp := e.P.SPkgs[fc.PkgPath]; sp != nil {
		pk = sp.Pkg
	}
	pre := st.clone()
	penv := &Env{e: e, pkg: pk, vars: map[string]Val{}, st: pre, ctx: "call to " + calleeName}
	if callee != nil {
		e.bindParams(penv, fc, callee, args)
	} else {
		// interface method: receiver first
		penv.vars["self"] = args[0]
		for i, p := range fc.Params {
			if i+1 < len(args) {
				penv.vars[p.Name] = args[i+1]
			}
		}
	}
	short := calleeName
	if i := strings.Index(short, "."); i >= 0 {
		short = short[i+1:]
	}
	for i, c := range fc.Requires {
		g := e.evalBool(penv, c.Expr)
		lbl := c.Label
		if lbl == "" {
			lbl = fmt.Sprintf("%d", i+1)
		}
		name := fmt.Sprintf("call:%s#%d:pre:%s", siteName, k, lbl)
		if !fr.top {
			name = fr.site + "/" + name
		}
		tags := c.Tags
		e.oblige(st, name, "pre", tags, g, c.Text, in.Pos())
	}
	// values shared with other goroutines may only flow into pure code or into parameters declared `shared`
	anyShared := ""
	for i, a := range args {
		if a.Shared == "" {
			continue
		}
		anyShared = a.Shared
		pname := ""
		j := i
		if callee != nil && callee.Signature.Recv() != nil || callee == nil {
			j = i - 1
		}
		if j < 0 {
			pname = "self"
			if fc.Recv != nil {
				pname = fc.Recv.Name
			}
		} else if j < len(fc.Params) {
			pname = fc.Params[j].Name
		}
		name := fmt.Sprintf("call:%s#%d:shared:%s", siteName, k, pname)
		if !fr.top {
			name = fr.site + "/" + name
		}
		if fc.Pure || contains(fc.Shared, pname) || (j < 0 && contains(fc.Shared, "self")) {
			e.oblige(st, name, "discipline", e.sharedTags(), "true",
				fmt.Sprintf("a value that other goroutines may use at the same time (%s) flows only into pure code or into a parameter declared shared (%s of %s)", a.Shared, pname, calleeName), in.Pos())
			continue
		}
		e.oblige(st, name, "discipline", e.sharedTags(), "false",
			fmt.Sprintf("a value that other goroutines may use at the same time (%s) is handed to %s as %s; the callee is not pure and does not declare that parameter shared", a.Shared, calleeName, pname), in.Pos())
	}
	// havoc
	if !fc.Pure {
		for _, m := range fc.Modifies {
			e.havocClause(penv, st, fc, m)
		}
	}
	// a function value handed to the callee may be called by it: variables it captures by
	// reference and writes are not known to keep their value across this call
	for _, a := range args {
		if a.K != KRef {
			continue
		}
		if ci, ok := e.closures[a.t()]; ok {
			e.havocCaptured(st, ci, map[*ssa.Function]bool{})
		}
	}
	e.bumpTop(st)
	// results
	var results []Val
	sig := fc.Results
	if rt != nil {
		if tp, ok := rt.(*types.Tuple); ok {
			for i := 0; i < tp.Len(); i++ {
				v := e.freshVal(fmt.Sprintf("r_%s_%d", sanitize(short), i), tp.At(i).Type(), kindOf(tp.At(i).Type()))
				e.typeFacts(v, tp.At(i).Type(), st)
				results = append(results, v)
			}
		} else if kindOf(rt) != KUnit {
			v := e.freshVal("r_"+sanitize(short), rt, kindOf(rt))
			e.typeFacts(v, rt, st)
			results = append(results, v)
		}
	}
	_ = sig
	if fc.ChanResult != "" && len(results) == 1 {
		results[0].Origin = "chanlog:" + fc.ChanResult
	}
	for i := range results {
		rn := ""
		if i < len(fc.Results) {
			rn = fc.Results[i].Name
		}
		if rn != "" && contains(fc.Shared, rn) {
			results[i].Shared = "result " + rn + " of " + calleeName
		} else if anyShared != "" && fc.Pure && results[i].K == KRef {
			// what pure code returns for a shared argument may be part of it
			results[i].Shared = anyShared
		}
	}
	qenv := &Env{e: e, pkg: pk, vars: map[string]Val{}, st: st, old: penv, ctx: "call to " + calleeName}
	for n, v := range penv.vars {
		qenv.vars[n] = v
	}
	e.bindResults(qenv, fc, results)
	// instantiations of the callee's universally quantified ghost variables
	var insts []map[string]Val
	if len(fc.Forall) > 0 {
		if cs, ok := e.callOrd[in]; ok && e.siteFrame(fr) && e.fc != nil {
			for _, sec := range e.fc.Calls {
				if sec.Callee == cs.name && sec.N == cs.k {
					cenv := e.funcEnv(fr, pre)
					for _, one := range sec.Inst {
						m := map[string]Val{}
						for _, b := range one {
							m[b.Name] = e.evalExpr(cenv, b.Expr)
						}
						insts = append(insts, m)
					}
				}
			}
		}
		// default: pass the caller's own variable of the same name through
		def := map[string]Val{}
		for _, q := range fc.Forall {
			if v, ok := e.forallVars[q.Name]; ok {
				def[q.Name] = v
			}
		}
		if len(def) == len(fc.Forall) {
			insts = append(insts, def)
		}
	}
	if len(insts) == 0 {
		// no instantiation: clauses that do not mention the quantified variables still hold
		insts = []map[string]Val{{}}
	}
	for _, m := range insts {
		ienv := qenv.child()
		oenv := penv.child()
		for _, q := range fc.Forall {
			k, t := e.specType(fc.PkgPath, q.Type)
			if v, ok := m[q.Name]; ok {
				ienv.vars[q.Name] = castTo(v, k, t)
				oenv.vars[q.Name] = castTo(v, k, t)
			}
		}
		ienv.old = oenv
		ienv.soft, oenv.soft = true, true
		e.softly(func() { e.evalWitnesses(ienv, fc) })
		for _, c := range append(append([]Clause{}, fc.Ensures...), fc.Assumes...) {
			if !closedUnder(c.Expr, ienv) {
				continue
			}
			c := c
			// clauses over the callee's local names (its own witnesses) are not visible to callers
			e.softly(func() { e.S.Assert(sImp(st.reach, e.evalBool(ienv, c.Expr))) })
		}
	}
	switch len(results) {
	case 0:
		return vUnit()
	case 1:
		return results[0]
	}
	return Val{K: KTuple, T: rt, F: results}
}

// havocClause havocs one `modifies` entry: "x.f" (one location), "T.f"
// (whole field), "x.*" (all fields of one object), a ghost name, or "*".
func (e *Exec) havocClause(env *Env, st *State, fc *FuncContract, m string) {
	m = strings.TrimSpace(m)
	if m == "*" {
		e.havocAll(st)
		return
	}
	if g, ok := st.ghost[m]; ok {
		st.ghost[m] = e.freshVal("g_"+m, g.T, g.K)
		return
	}
	if _, ok := e.P.CS.Ghosts[m]; ok {
		return
	}
	if name, argSrc, ok := ghostFieldLoc(e.P, m); ok {
		k, _ := e.specType("", e.P.CS.GhostFields[name])
		srt := sortsOf(k)[0]
		if argSrc == "*" {
			e.arrTerm(st, "GF_"+name, srt)
			e.havocArr(st, "GF_"+name)
			return
		}
		ex, err := parseExprSafe(argSrc)
		if err != nil {
			fatalf("%s: bad modifies entry %q", fc.Key, m)
		}
		base := e.evalExpr(env, ex)
		e.upd(st, "GF_"+name, srt, base.t(), e.S.Fresh("mod_"+name, srt))
		return
	}
	dot := strings.LastIndex(m, ".")
	if dot < 0 {
		names := e.P.modArrays(fc, m)
		if names == nil {
			fatalf("%s: bad modifies entry %q", fc.Key, m)
		}
		for _, n := range names {
			if _, ok := e.arrSort[n]; !ok {
				e.arrTerm(st, n, e.P.arrSortByName(n))
			}
			e.havocArr(st, n)
		}
		return
	}
	baseSrc, fname := m[:dot], m[dot+1:]
	rootName := baseSrc
	if i := strings.Index(rootName, "."); i >= 0 {
		rootName = rootName[:i]
	}
	isType := !hasVar(env, rootName) && resolveTypeIn(e.P, env.pkg, baseSrc) != nil
	// location form?
	if ex, err := parseExprSafe(baseSrc); err == nil && !isType {
		if id, ok := ex.(*ast.Ident); !ok || hasVar(env, id.Name) {
			base := e.evalExpr(env, ex)
			if base.T != nil {
				if _, isIface := base.T.Underlying().(*types.Interface); isIface && fname == "*" {
					// all fields of the implementation, at this object only; which
					// implementation is decided by the dynamic type tag
					it := base.T.Underlying().(*types.Interface)
					bumped := false
					for _, impl := range e.P.implementers(it) {
						cond := sEq(sx("typeof", base.t()), sInt(int64(e.P.tagOf(impl))))
						for _, an := range fieldArrays(impl, "*") {
							srt := e.arrSortOf(an)
							cur := e.arrTerm(st, an, srt)
							if e.P.wireRelevant(an) && !e.benign(base.t()) && !bumped {
								e.bumpHV(st)
								bumped = true
							}
							st.heap[an] = e.S.Define(an, "(Array Int "+srt+")", sIte(cond, sx("store", cur, base.t(), e.S.Fresh("mod_"+an, srt)), cur))
						}
					}
					return
				}
				if stt, T := structOf(base.T); stt != nil {
					for i := 0; i < stt.NumFields(); i++ {
						f := stt.Field(i)
						if fname == "*" || f.Name() == fname {
							fv := e.freshVal("mod_"+f.Name(), f.Type(), kindOf(f.Type()))
							e.typeFacts(fv, f.Type(), st)
							e.writeAt(st, fieldArrName(T, f.Name()), f.Type(), base.t(), fv)
						}
					}
					return
				}
			}
		}
	}
	names := e.P.modArrays(fc, m)
	if names == nil {
		fatalf("%s: cannot interpret modifies entry %q", fc.Key, m)
	}
	for _, n := range names {
		if _, ok := e.arrSort[n]; !ok {
			e.arrTerm(st, n, e.P.arrSortByName(n))
		}
		e.havocArr(st, n)
	}
}

func hasVar(env *Env, n string) bool { _, ok := env.vars[n]; return ok }

// execInvoke: call through an interface.
func (e *Exec) execInvoke(fr *Frame, st *State, in ssa.CallInstruction, c *ssa.CallCommon, rt types.Type) Val {
	recv := e.val(fr, c.Value, st)
	e.safety(fr, st, in.(ssa.Instruction), "call", sNot(sEq(recv.t(), "0")), "method call on nil interface "+c.Method.Name())
	if recv.Origin != "" {
		e.P.initFieldDecls()
		if fd := e.P.fdCache[recv.Origin+"/callguard:"+c.Method.Name()]; fd != nil {
			var T types.Type
			if sp := e.P.SPkgs[fd.PkgPath]; sp != nil {
				T = resolveTypeIn(e.P, sp.Pkg, fd.Type)
			}
			lk := fieldArrName(T, fd.Args[0]) + "@" + recv.OriginBase
			name := fmt.Sprintf("callguard:%s.%s.%s:%d", lastSeg(fd.Type), fd.Field, c.Method.Name(), localOrdinal(fr.fn, in.(ssa.Instruction), "call"))
			if !fr.top {
				name = fr.site + "/" + fnKey(fr.fn) + "#" + name
			}
			e.oblige(st, name, "discipline", fd.Tags, boolStr(st.held[lk]), fmt.Sprintf("%s.%s.%s must be called with %s held", fd.Type, fd.Field, c.Method.Name(), fd.Args[0]), in.Pos())
		}
	}
	args := append([]Val{recv}, e.callArgs(fr, st, c)...)
	if fc := e.P.ifaceMethodContract(c.Value.Type(), c.Method.Name()); fc != nil {
		name := shortPkg(fc.PkgPath) + "." + lastSeg(fc.Recv.Type) + "." + c.Method.Name()
		return e.callModular(fr, st, in.(ssa.Instruction), fc, nil, name, args, rt)
	}
	if n, ok := types.Unalias(c.Value.Type()).(*types.Named); ok && n.Obj().Pkg() != nil && !strings.HasPrefix(n.Obj().Pkg().Path(), modPath) {
		e.note("unknown-stdlib: method %s.%s (result unconstrained, no heap effect assumed)", c.Value.Type(), c.Method.Name())
		r := e.freshVal("res_"+sanitize(c.Method.Name()), rt, kindOf(rt))
		e.typeFacts(r, rt, st)
		if c.Method.Name() == "Done" && types.TypeString(types.Unalias(c.Value.Type()), nil) == "context.Context" {
			r.Origin, r.OriginBase = ctxDoneOrigin, recv.t()
		}
		return r
	}
	if c.Method.Name() == "Error" {
		return vStr(e.S.Fresh("errtext", "String")).withT(rt)
	}
	e.note("uncontracted-call: %s invokes %s.%s (result and heap havocked)", dispName(fr.fn), c.Value.Type(), c.Method.Name())
	e.havocAll(st)
	r := e.freshVal("res_"+sanitize(c.Method.Name()), rt, kindOf(rt))
	e.typeFacts(r, rt, st)
	return r
}

func (e *Exec) execDynamicCall(fr *Frame, st *State, in ssa.CallInstruction, c *ssa.CallCommon, rt types.Type) Val {
	fv := e.val(fr, c.Value, st)
	if ci, ok := e.closures[fv.t()]; ok {
		args := e.callArgs(fr, st, c)
		return e.callFunction(fr, st, in.(ssa.Instruction), ci.fn, args, ci.binds, rt)
	}
	return e.callOpaque(fr, st, in, c, fv, rt)
}

func parseExprSafe(src string) (ast.Expr, error) {
	return parserParseExpr(src)
}

// closedUnder: every free identifier of the expression is bound (clauses over
// quantified variables without an instantiation are skipped).
func closedUnder(x ast.Expr, env *Env) bool {
	ok := true
	ast.Inspect(x, func(n ast.Node) bool {
		switch n := n.(type) {
		case *ast.SelectorExpr:
			// only the base can be a variable
			ast.Inspect(n.X, func(m ast.Node) bool {
				if id, isId := m.(*ast.Ident); isId {
					if env.e.P.CS.isForallName(id.Name) && !hasVar(env, id.Name) {
						ok = false
					}
				}
				return true
			})
			return false
		case *ast.Ident:
			if env.e.P.CS.isForallName(n.Name) && !hasVar(env, n.Name) {
				ok = false
			}
		}
		return true
	})
	return ok
}

func (cs *Contracts) isForallName(n string) bool {
	if cs.forallNames == nil {
		cs.forallNames = map[string]bool{}
		for _, fc := range cs.Funcs {
			for _, q := range fc.Forall {
				cs.forallNames[q.Name] = true
			}
		}
		for _, ic := range cs.Ifaces {
			for _, fc := range ic.Methods {
				for _, q := range fc.Forall {
					cs.forallNames[q.Name] = true
				}
			}
		}
	}
	return cs.forallNames[n]
}

func (e *Exec) softly(f func()) {
	depth := len(e.readTrace)
	defer func() {
		if r := recover(); r != nil {
			if sf, ok := r.(softFail); ok {
				e.readTrace = e.readTrace[:depth]
				if os.Getenv("GOVC_DEBUG_SOFT") != "" {
					fmt.Fprintf(os.Stderr, "govc: soft failure in %s: %v\n", e.name, sf)
				}
				// a callee clause that cannot be interpreted at this call site is dropped (that only
				// weakens what the caller may assume); it is listed in the evidence notes
				e.note("callee-clause-dropped: a clause of a callee could not be interpreted at a call site in %s (%v)", e.name, sf)
				return
			}
			panic(r)
		}
	}()
	f()
}

// ghostFieldLoc parses a modifies entry of the form name(expr) for a declared ghost field.
func ghostFieldLoc(p *Prog, m string) (name, arg string, ok bool) {
	i := strings.Index(m, "(")
	if i <= 0 || !strings.HasSuffix(m, ")") {
		return "", "", false
	}
	name = strings.TrimSpace(m[:i])
	if _, is := p.CS.GhostFields[name]; !is {
		return "", "", false
	}
	return name, strings.TrimSpace(m[i+1 : len(m)-1]), true
}

func hasRangeIndex(b *ssa.BasicBlock) bool {
	for _, in := range b.Instrs {
		phi, ok := in.(*ssa.Phi)
		if !ok {
			break
		}
		if phi.Comment == "rangeindex" {
			return true
		}
	}
	return false
}

// countedLoopInit recognises the induction variable of `for i := init; ...; i++`:
// a header phi whose back-edge values are all phi+1 and whose single entry value is
// defined outside the loop. Only the first such phi of a header counts.
func countedLoopInit(li *loopInfo, phi *ssa.Phi) (ssa.Value, bool) {
	for _, in := range li.header.Instrs {
		p, ok := in.(*ssa.Phi)
		if !ok {
			break
		}
		if init, ok := inductionInit(li, p); ok {
			if p == phi {
				return init, true
			}
			return nil, false
		}
	}
	return nil, false
}

func inductionInit(li *loopInfo, phi *ssa.Phi) (ssa.Value, bool) {
	var init ssa.Value
	for i, pred := range li.header.Preds {
		ev := phi.Edges[i]
		if li.blocks[pred] {
			bo, ok := ev.(*ssa.BinOp)
			if !ok || bo.Op != token.ADD || bo.X != phi {
				return nil, false
			}
			c, ok := bo.Y.(*ssa.Const)
			if !ok || c.Value == nil || c.Int64() != 1 {
				return nil, false
			}
		} else {
			if init != nil && init != ev {
				return nil, false
			}
			init = ev
		}
	}
	return init, init != nil
}


// havocCaptured forgets the value of every variable the closure captures by reference
// and may write (directly or through a nested closure).
func (e *Exec) havocCaptured(st *State, ci closureInfo, seen map[*ssa.Function]bool) {
	if seen[ci.fn] {
		return
	}
	seen[ci.fn] = true
	for i, fv := range ci.fn.FreeVars {
		if i >= len(ci.binds) {
			break
		}
		pt, ok := fv.Type().Underlying().(*types.Pointer)
		if !ok || !freeVarWritten(ci.fn, fv, map[*ssa.Function]bool{}) {
			continue
		}
		b := ci.binds[i]
		if b.K != KRef {
			continue
		}
		if _, isStruct := pt.Elem().Underlying().(*types.Struct); isStruct && !isOpaqueStruct(pt.Elem()) {
			e.note("closure %s writes the captured struct variable %s: its fields are not havocked at calls that receive the closure", ci.fn.Name(), fv.Name())
			continue
		}
		if _, isArr := pt.Elem().Underlying().(*types.Array); isArr {
			continue
		}
		nv := e.freshVal("cap_"+sanitize(fv.Name()), pt.Elem(), kindOf(pt.Elem()))
		e.typeFacts(nv, pt.Elem(), st)
		e.writeCell(st, b.t(), pt.Elem(), nv)
	}
}

func freeVarWritten(fn *ssa.Function, fv *ssa.FreeVar, seen map[*ssa.Function]bool) bool {
	if seen[fn] {
		return false
	}
	seen[fn] = true
	refs := fv.Referrers()
	if refs == nil {
		return false
	}
	for _, r := range *refs {
		switch x := r.(type) {
		case *ssa.DebugRef:
		case *ssa.UnOp:
			if x.Op != token.MUL {
				return true
			}
		case *ssa.Store:
			if x.Addr == fv {
				return true
			}
			return true // the address itself is stored somewhere
		case *ssa.MakeClosure:
			inner := x.Fn.(*ssa.Function)
			for i, b := range x.Bindings {
				if b == fv && i < len(inner.FreeVars) && freeVarWritten(inner, inner.FreeVars[i], seen) {
					return true
				}
			}
		default:
			return true
		}
	}
	return false
}

// sharedTags: the properties for which the `shared` discipline is declared anywhere in the module
func (e *Exec) sharedTags() []string {
	seen := map[string]bool{}
	var out []string
	add := func(fc *FuncContract) {
		for _, t := range fc.SharedTags {
			if !seen[t] {
				seen[t] = true
				out = append(out, t)
			}
		}
	}
	for _, k := range sortedKeys(e.P.CS.Funcs) {
		add(e.P.CS.Funcs[k])
	}
	for _, ik := range sortedKeys(e.P.CS.Ifaces) {
		for _, mk := range sortedKeys(e.P.CS.Ifaces[ik].Methods) {
			add(e.P.CS.Ifaces[ik].Methods[mk])
		}
	}
	return out
}
