package main

// Symbolic execution of one function (plus inlined callees) over go/ssa,
// producing obligations. See DESIGN.md section 3.

import (
	"os"
	"go/ast"
	"fmt"
	"go/constant"
	"go/token"
	"go/types"
	"sort"
	"strings"

	"golang.org/x/tools/go/ssa"
)

type Obligation struct {
	Name   string
	Props  []string
	Kind   string // post pre inv-entry inv-keep decr safety lemma discipline cover canary
	Func   string
	Desc   string
	Pos    string
	N      int // script prefix
	Hyp    []string
	Goal   string
	Script *Script
	Inputs []string
	Ex     *Exec
	// result
	Res       SolverResult
	QueryFile string
	ExpectSat bool // covers and canaries
	Results     []Val
	ResultTerms []string
	Dependency  bool     // belongs to a function in the property's dependency closure, not tagged for it
	Clause      ast.Expr // the contract clause behind a post obligation (for replay: is it a function of inputs and results only?)
	Splits      []string // branch conditions on the way to this obligation (case-split fallback)
	CoverGroup  string   // covers: at least one member of the group must be reachable
}

type arrInfo struct {
	name string
	sort string // element sort; array sort is (Array Int sort)
}

type State struct {
	hv     string // heap version token for heap-dependent uninterpreted spec functions
	reach  string
	heap   map[string]string
	ghost  map[string]Val
	top    string
	larr   map[*ssa.Alloc]*LocalArr
	defers []*ssa.Defer
	held   map[string]bool
	mayHeld map[string]string // lock -> Bool term: acquired in this call and not yet released on this path
	fieldIdent map[string]string // field location -> identity of the []byte stored there during this call
	frozen map[string]string // backing-array identity -> Bool term: handed over on a channel on this path
}

func (s *State) clone() *State {
	n := &State{hv: s.hv, reach: s.reach, top: s.top, heap: map[string]string{}, ghost: map[string]Val{}, larr: map[*ssa.Alloc]*LocalArr{}, held: map[string]bool{}, frozen: map[string]string{}, fieldIdent: map[string]string{}}
	for k, v := range s.frozen {
		n.frozen[k] = v
	}
	for k, v := range s.fieldIdent {
		n.fieldIdent[k] = v
	}
	for k, v := range s.heap {
		n.heap[k] = v
	}
	for k, v := range s.ghost {
		n.ghost[k] = v
	}
	for k, v := range s.larr {
		c := *v
		c.elems = append([]Val{}, v.elems...)
		n.larr[k] = &c
	}
	for k, v := range s.held {
		n.held[k] = v
	}
	if len(s.mayHeld) > 0 {
		n.mayHeld = map[string]string{}
		for k, v := range s.mayHeld {
			n.mayHeld[k] = v
		}
	}
	n.defers = append([]*ssa.Defer{}, s.defers...)
	return n
}

type LocalArr struct {
	elemT  types.Type
	elems  []Val
	sliced bool
}

type addrKind int

const (
	aField addrKind = iota
	aElem           // element of a heap-backed sequence
	aLocal          // element of a local literal array
	aCell           // pointer to a non-struct variable (cell)
	aGlobal
	aByte // element of a []byte value (read-only)
)

type Addr struct {
	kind  addrKind
	base  string // object ref / backing ref / cell ref
	T     types.Type
	path  string // field path "f" or "f.g"
	ft    types.Type
	idx   string
	larr  *ssa.Alloc
	li    int
	gname string
	shared string // elements of a shared slice are shared
}

type Frame struct {
	fn      *ssa.Function
	vals    map[ssa.Value]Val
	addrs   map[ssa.Value]*Addr
	out     map[int]*State // state at the end of block i
	depth   int
	top     bool
	site    string // naming prefix for obligations of inlined frames
	closure Val    // closure object for free variables
	fvals   []Val  // free variable values (cell refs)
	entry   *State // state at function entry (for old())
	params  []Val
	rets    []retInfo
	parent  *Frame // the frame this one was inlined from
}

type retInfo struct {
	st   *State
	vals []Val
}

type Exec struct {
	P        *Prog
	S        *Script
	fn       *ssa.Function
	fc       *FuncContract
	name     string
	obls     []*Obligation
	notes    map[string]bool
	unsup    map[string]bool
	inputs   []string
	ord      map[ssa.Instruction]int
	arrSort  map[string]string
	allArr   []arrInfo
	inlining []*ssa.Function
	specDecl map[string]bool
	cover    bool
	curFrame *Frame
	callSeen map[string]int
	retCount int
	closures map[string]closureInfo
	usedLemmas map[string]bool
	measures map[int]string
	replayInputs []*inNode
	callOrd  map[ssa.Instruction]callSite
	spliced  map[*ssa.Function]bool // uncontracted helpers whose call sites are numbered with the function's own
	monAcq     map[string]*State // monitor fields: the state right after the lock was taken
	loopFrames map[int]map[string]loopFrame
	aliasOf  map[string][]aliasEdge // ownership tracking: a phi's array is one of its incoming arrays
	loopTop  string // allocation mark at the most recently cut loop head
	curBlock *ssa.BasicBlock
	curInstr ssa.Instruction // top frame: the instruction being executed (for naming locals at sites)
	prov     map[string]string // reference term -> "fresh" | "owned"
	havockedAll bool
	inAtomic  bool
	lastTraceIdx string
	conds     []string
	specCache map[string]Val
	lastSpecKey, lastSpecName string
	siteVars  map[string]Val
	forallVars map[string]Val
	fvDeref   map[*ssa.FreeVar]Val
	unboundSites map[string]bool
	opaqueSig map[string]string
	specCache2 map[string][]specEntry
	readTrace []*readRec
	ldCache   map[string]string
}

type specEntry struct {
	reads *readRec
	val   Val
}

// readRec records what a specification-function body read from the heap:
// which array versions (to validate memoised expansions) and which cells
// (the arguments of an opaque function's uninterpreted stand-in).
type readRec struct {
	arrs  map[string]string
	cells []string // select terms, in evaluation order
	sorts []string
	seen  map[string]bool
}

func newReadRec() *readRec { return &readRec{arrs: map[string]string{}, seen: map[string]bool{}} }

func (r *readRec) addCell(term, sort string) {
	if r.seen[term] {
		return
	}
	r.seen[term] = true
	r.cells = append(r.cells, term)
	r.sorts = append(r.sorts, sort)
}

func (r *readRec) absorb(o *readRec) {
	for a, t := range o.arrs {
		r.arrs[a] = t
	}
	for i, c := range o.cells {
		r.addCell(c, o.sorts[i])
	}
}

// benign: a store at this reference cannot change the wire image of any
// pre-existing structure (fresh object, or object held in an owned field).
func (e *Exec) benign(idx string) bool { return e.prov[idx] != "" }

func (e *Exec) bumpHV(st *State) {
	st.hv = e.S.Fresh("hv", "Int")
}

type loopFrame struct {
	header string   // the array at the loop head
	locs   []string // the only indices the loop may change
}

type aliasEdge struct {
	cond  string
	ident string
}

type callSite struct {
	name string
	k    int
}

func callShortName(c *ssa.CallCommon) string {
	if b, ok := c.Value.(*ssa.Builtin); ok {
		return b.Name()
	}
	if c.IsInvoke() {
		return c.Method.Name()
	}
	if f := c.StaticCallee(); f != nil {
		return f.Name()
	}
	// a function value loaded from a struct field is named after the field
	if u, ok := c.Value.(*ssa.UnOp); ok {
		if fa, ok := u.X.(*ssa.FieldAddr); ok {
			if stt, _ := structOf(fa.X.Type()); stt != nil {
				return stt.Field(fa.Field).Name()
			}
		}
	}
	if p, ok := c.Value.(*ssa.Parameter); ok {
		return p.Name()
	}
	return "func"
}

func (e *Exec) note(f string, a ...interface{}) { e.notes[fmt.Sprintf(f, a...)] = true }
func (e *Exec) unsupported(f string, a ...interface{}) {
	e.unsup[fmt.Sprintf(f, a...)] = true
}

func dispName(fn *ssa.Function) string {
	pk := fn.Pkg
	f := fn
	for pk == nil && f.Parent() != nil {
		f = f.Parent()
		pk = f.Pkg
	}
	if pk == nil {
		return fn.String()
	}
	return shortPkg(pk.Pkg.Path()) + "." + fn.RelString(pk.Pkg)
}

func posOf(p *Prog, pos token.Pos) string {
	if !pos.IsValid() {
		return ""
	}
	ps := p.SSA.Fset.Position(pos)
	f := ps.Filename
	if strings.HasPrefix(f, p.Repo+"/") {
		f = f[len(p.Repo)+1:]
	}
	return fmt.Sprintf("%s:%d", f, ps.Line)
}

// ---------------------------------------------------------------------------
// heap

func (e *Exec) arrTerm(st *State, name, sort string) string {
	if len(e.readTrace) > 0 {
		t, ok := st.heap[name]
		if !ok {
			t = name
		}
		for _, tr := range e.readTrace {
			tr.arrs[name] = t
		}
	}
	if t, ok := st.heap[name]; ok {
		return t
	}
	if _, ok := e.arrSort[name]; !ok {
		e.arrSort[name] = sort
		e.allArr = append(e.allArr, arrInfo{name, sort})
	}
	e.S.Declare(name, "(Array Int "+sort+")")
	return name
}

func (e *Exec) sel(st *State, name, sort, idx string) string {
	t := sx("select", e.arrTerm(st, name, sort), idx)
	for _, tr := range e.readTrace {
		tr.addCell(t, sort)
	}
	return t
}

func (e *Exec) upd(st *State, name, sort, idx, v string) {
	if e.P.wireRelevant(name) && !e.benign(idx) {
		e.bumpHV(st)
	}
	cur := e.arrTerm(st, name, sort)
	n := e.S.Fresh(name, "(Array Int "+sort+")")
	e.S.AssertDef(n, sx("store", cur, idx, v))
	st.heap[name] = n
}

func (e *Exec) havocArr(st *State, name string) {
	sort, ok := e.arrSort[name]
	if !ok {
		return
	}
	st.heap[name] = e.S.Fresh(name, "(Array Int "+sort+")")
	if name == "LEN" {
		e.S.Assert(sEq(sx("select", st.heap[name], "0"), "0"))
	}
	if strings.HasPrefix(name, "SEQ_") {
		e.S.Assert(sEq(sx("select", st.heap[name], "0"), constArr(name[4:])))
	}
	if e.P.wireRelevant(name) {
		e.bumpHV(st)
	}
}

func (e *Exec) havocAll(st *State) {
	for _, a := range e.allArr {
		st.heap[a.name] = e.S.Fresh(a.name, "(Array Int "+a.sort+")")
		if a.name == "LEN" {
			e.S.Assert(sEq(sx("select", st.heap[a.name], "0"), "0"))
		}
		if strings.HasPrefix(a.name, "SEQ_") {
			e.S.Assert(sEq(sx("select", st.heap[a.name], "0"), constArr(a.name[4:])))
		}
	}
	for g, v := range st.ghost {
		st.ghost[g] = e.freshVal("g_"+g, v.T, v.K)
	}
	e.bumpTop(st)
	e.bumpHV(st)
	e.havockedAll = true
}

func (e *Exec) bumpTop(st *State) {
	n := e.S.Fresh("top", "Int")
	e.S.Assert(sx(">=", n, st.top))
	st.top = n
}

func (e *Exec) alloc(st *State, prefix string, t types.Type) string {
	r := e.S.Fresh(prefix, "Int")
	e.S.Assert(sx(">", r, st.top))
	st.top = r
	e.prov[r] = "fresh"
	if t != nil {
		e.S.Assert(sEq(sx("typeof", r), sInt(int64(e.P.tagOf(t)))))
	}
	return r
}

// fieldArr gives the array names for a field path of struct type T.
func fieldArrName(T types.Type, path string) string {
	return "H_" + typeKey(T) + "_" + sanitize(path)
}

// readLoc reads a value of Go type ft from array family `name` at index idx.
func (e *Exec) readAt(st *State, name string, ft types.Type, idx string) Val {
	switch k := kindOf(ft); k {
	case KInt:
		v := vInt(e.sel(st, name, "Int", idx)).withT(ft)
		return v
	case KBool:
		return vBool(e.sel(st, name, "Bool", idx)).withT(ft)
	case KStr:
		return vStr(e.sel(st, name, "String", idx)).withT(ft)
	case KBytes:
		s := e.sel(st, name+"_s", "String", idx)
		n := e.sel(st, name+"_n", "Bool", idx)
		e.S.Assert(sImp(n, sEq(sx("str.len", s), "0")))
		return vBytes(s, n).withT(ft)
	case KRef:
		selT := e.sel(st, name, "Int", idx)
		if c, ok := e.ldCache[selT]; ok {
			r := vRef(c).withT(ft)
			if _, isFn := ft.Underlying().(*types.Signature); isFn {
				r.Origin = name
			}
			if _, isCh := ft.Underlying().(*types.Chan); isCh {
				r.Origin, r.OriginBase = name, idx
			}
			if _, isIf := ft.Underlying().(*types.Interface); isIf {
				r.Origin, r.OriginBase = name, idx
			}
			if _, isMap := ft.Underlying().(*types.Map); isMap {
				r.Origin, r.OriginBase = name, idx
			}
			return r
		}
		t := e.S.Define("ld", "Int", selT)
		e.ldCache[selT] = t
		e.S.Assert(sx("<=", t, st.top))
		if _, written := st.heap[name]; !written {
			// never written since entry: a pre-existing object only refers to pre-existing objects
			e.S.Assert(sImp(sx("<=", idx, "A0"), sx("<=", t, "A0")))
		}
		e.ptrTypeFact(t, ft)
		if _, isFn := ft.Underlying().(*types.Signature); isFn {
			r := vRef(t).withT(ft)
			r.Origin = name
			return r
		}
		if _, isCh := ft.Underlying().(*types.Chan); isCh {
			r := vRef(t).withT(ft)
			r.Origin, r.OriginBase = name, idx
			return r
		}
		if _, isMap := ft.Underlying().(*types.Map); isMap {
			// the contents of a map held in a protected field are protected like the field
			r := vRef(t).withT(ft)
			r.Origin, r.OriginBase = name, idx
			return r
		}
		if t != "0" {
			switch e.P.ownMode(name) {
			case "owned":
				e.prov[t] = "owned"
			case "inherits":
				if p := e.prov[idx]; p != "" {
					e.prov[t] = p
				}
			}
		}
		if _, isIf := ft.Underlying().(*types.Interface); isIf {
			r := vRef(t).withT(ft)
			r.Origin, r.OriginBase = name, idx
			return r
		}
		return vRef(t).withT(ft)
	case KStruct:
		stt := ft.Underlying().(*types.Struct)
		v := Val{K: KStruct, T: ft}
		for i := 0; i < stt.NumFields(); i++ {
			v.F = append(v.F, e.readAt(st, name+"."+stt.Field(i).Name(), stt.Field(i).Type(), idx))
		}
		return v
	}
	return vUnit()
}

func (e *Exec) writeAt(st *State, name string, ft types.Type, idx string, v Val) {
	switch kindOf(ft) {
	case KInt:
		e.upd(st, name, "Int", idx, v.t())
	case KBool:
		e.upd(st, name, "Bool", idx, v.t())
	case KStr:
		e.upd(st, name, "String", idx, v.t())
	case KBytes:
		if v.K == KRef { // nil
			v = vBytes(`""`, "true")
		}
		e.upd(st, name+"_s", "String", idx, v.A[0])
		e.upd(st, name+"_n", "Bool", idx, v.A[1])
	case KRef:
		e.upd(st, name, "Int", idx, v.t())
	case KStruct:
		stt := ft.Underlying().(*types.Struct)
		for i := 0; i < stt.NumFields(); i++ {
			e.writeAt(st, name+"."+stt.Field(i).Name(), stt.Field(i).Type(), idx, v.F[i])
		}
	}
}

func sanitizeArr(n string) string { return sanitize(n) }

func (e *Exec) readField(st *State, T types.Type, path string, ft types.Type, obj string) Val {
	return e.readAt(st, fieldArrName(T, path), ft, obj)
}

func (e *Exec) cellName(ft types.Type) string { return "CELL" }

// Slices of non-byte elements are references to a backing store: the elements
// live in SEQ_<sort>[ref] (an array indexed by position) and the length in LEN[ref].
func (e *Exec) seqArr(elemT types.Type) (string, string) {
	s := elemSort(elemT)
	return "SEQ_" + s, "(Array Int " + s + ")"
}

// seqOf returns the element array stored for a slice/array reference.
func (e *Exec) seqOf(st *State, ref string, elemT types.Type) string {
	n, srt := e.seqArr(elemT)
	return e.sel(st, n, srt, ref)
}

func (e *Exec) seqLen(st *State, ref string) string {
	t := e.sel(st, "LEN", "Int", ref)
	e.S.Assert(sx("<=", "0", t))
	return t
}

// setSeq gives reference ref the given contents and length.
func (e *Exec) setSeq(st *State, ref string, elemT types.Type, content, ln string) {
	n, srt := e.seqArr(elemT)
	e.upd(st, n, srt, ref, content)
	e.upd(st, "LEN", "Int", ref, ln)
}

func constArr(sort string) string {
	z := map[string]string{"Int": "0", "Bool": "false", "String": `""`}[sort]
	return "((as const (Array Int " + sort + ")) " + z + ")"
}

func (e *Exec) elemFromTerm(t string, elemT types.Type, st *State) Val {
	switch kindOf(elemT) {
	case KInt:
		return vInt(t).withT(elemT)
	case KBool:
		return vBool(t).withT(elemT)
	case KStr:
		return vStr(t).withT(elemT)
	case KBytes:
		nl := e.S.Fresh("isnil", "Bool")
		e.S.Assert(sImp(nl, sEq(sx("str.len", t), "0")))
		return vBytes(t, nl).withT(elemT)
	case KRef:
		d := e.S.Define("el", "Int", t)
		e.S.Assert(sx("<=", d, st.top))
		return vRef(d).withT(elemT)
	}
	e.unsupported("element kind %v", kindOf(elemT))
	return vRef("0")
}

func elemTerm(v Val) string {
	if v.K == KRef && len(v.A) == 0 {
		return "0"
	}
	return v.A[0]
}

func seqLit(sort string, elems []string) string {
	t := constArr(sort)
	for i, x := range elems {
		t = sx("store", t, sInt(int64(i)), x)
	}
	return t
}

// ---------------------------------------------------------------------------
// values

func (e *Exec) freshVal(prefix string, t types.Type, k Kind) Val {
	switch k {
	case KInt:
		return vInt(e.S.Fresh(prefix, "Int")).withT(t)
	case KBool:
		return vBool(e.S.Fresh(prefix, "Bool")).withT(t)
	case KStr:
		return vStr(e.S.Fresh(prefix, "String")).withT(t)
	case KBytes:
		s := e.S.Fresh(prefix, "String")
		n := e.S.Fresh(prefix+"_nil", "Bool")
		e.S.Assert(sImp(n, sEq(sx("str.len", s), "0")))
		return vBytes(s, n).withT(t)
	case KRef:
		return vRef(e.S.Fresh(prefix, "Int")).withT(t)
	case KMap:
		return Val{K: KMap, A: []string{e.S.Fresh(prefix, "(Array Int Int)")}}
	case KSMap:
		return Val{K: KSMap, A: []string{e.S.Fresh(prefix, "(Array Int String)")}}
	case KStruct:
		st := t.Underlying().(*types.Struct)
		v := Val{K: KStruct, T: t}
		for i := 0; i < st.NumFields(); i++ {
			v.F = append(v.F, e.freshVal(prefix+"_"+st.Field(i).Name(), st.Field(i).Type(), kindOf(st.Field(i).Type())))
		}
		return v
	case KTuple:
		tp := t.(*types.Tuple)
		v := Val{K: KTuple, T: t}
		for i := 0; i < tp.Len(); i++ {
			v.F = append(v.F, e.freshVal(fmt.Sprintf("%s_%d", prefix, i), tp.At(i).Type(), kindOf(tp.At(i).Type())))
		}
		return v
	}
	return vUnit()
}

// typeFacts adds range facts for a fresh value of Go type t.
func (e *Exec) typeFacts(v Val, t types.Type, st *State) {
	if t == nil {
		return
	}
	switch v.K {
	case KInt:
		if b, ok := t.Underlying().(*types.Basic); ok {
			switch b.Kind() {
			case types.Uint8:
				e.S.Assert(sAnd(sx("<=", "0", v.t()), sx("<=", v.t(), "255")))
			case types.Uint, types.Uint16, types.Uint32, types.Uint64, types.Uintptr:
				e.S.Assert(sx("<=", "0", v.t()))
			}
		}
	case KRef:
		e.S.Assert(sAnd(sx("<=", "0", v.t()), sx("<=", v.t(), st.top)))
		e.ptrTypeFact(v.t(), t)
	case KStruct:
		stt := t.Underlying().(*types.Struct)
		for i := range v.F {
			e.typeFacts(v.F[i], stt.Field(i).Type(), st)
		}
	}
}

// ptrTypeFact: a non-nil pointer to a named struct type carries that dynamic type.
func (e *Exec) ptrTypeFact(term string, t types.Type) {
	if t == nil {
		return
	}
	pt, ok := t.Underlying().(*types.Pointer)
	if !ok {
		return
	}
	if _, ok := pt.Elem().Underlying().(*types.Struct); !ok || isOpaqueStruct(pt.Elem()) {
		return
	}
	if _, named := types.Unalias(pt.Elem()).(*types.Named); !named {
		return
	}
	e.S.Assert(sImp(sNot(sEq(term, "0")), sEq(sx("typeof", term), sInt(int64(e.P.tagOf(types.NewPointer(pt.Elem())))))))
}

func (e *Exec) constVal(c *ssa.Const) Val {
	t := c.Type()
	if c.Value == nil {
		return zeroVal(t)
	}
	switch kindOf(t) {
	case KInt:
		if c.Value.Kind() == constant.Float {
			f, _ := constant.Float64Val(c.Value)
			return vInt(sInt(int64(f))).withT(t)
		}
		if n, ok := constant.Int64Val(constant.ToInt(c.Value)); ok {
			return vInt(sInt(n)).withT(t)
		}
		if u, ok := constant.Uint64Val(constant.ToInt(c.Value)); ok {
			return vInt(fmt.Sprintf("%d", u)).withT(t)
		}
	case KBool:
		if constant.BoolVal(c.Value) {
			return vBool("true").withT(t)
		}
		return vBool("false").withT(t)
	case KStr:
		return vStr(sStr(constant.StringVal(c.Value))).withT(t)
	}
	e.unsupported("constant %v of type %v", c, t)
	return zeroVal(t)
}

func (e *Exec) val(fr *Frame, v ssa.Value, st *State) Val {
	switch x := v.(type) {
	case *ssa.Const:
		return e.constVal(x)
	case *ssa.Function:
		r := sInt(int64(1000000 + e.P.tagOf(types.NewPointer(types.Typ[types.Int])) + fnID(e.P, x)))
		return vRef(r).withT(x.Type())
	case *ssa.Global:
		// address of a global: handled by load/store through addr
		return vRef("0").withT(x.Type())
	case *ssa.Builtin:
		return vRef("0")
	}
	if r, ok := fr.vals[v]; ok {
		return r
	}
	if a, ok := fr.addrs[v]; ok {
		if a.kind == aCell {
			return vRef(a.base).withT(v.Type())
		}
		e.unsupported("%s: address value used as data: %s = %s", dispName(fr.fn), v.Name(), v.String())
		return vRef(e.S.Fresh("addr", "Int")).withT(v.Type())
	}
	e.unsupported("%s: value %s (%T) not available", dispName(fr.fn), v.Name(), v)
	return e.freshVal("undef", v.Type(), kindOf(v.Type()))
}

var fnIDs = map[*ssa.Function]int{}

func fnID(p *Prog, f *ssa.Function) int {
	if n, ok := fnIDs[f]; ok {
		return n
	}
	n := len(fnIDs) + 1
	fnIDs[f] = n
	return n
}

// ---------------------------------------------------------------------------
// obligations

func (e *Exec) ordinalName(fr *Frame, in ssa.Instruction, kind string) string {
	n := e.ord[in]
	if fr != nil && !fr.top {
		return fmt.Sprintf("%s/%s#%s:%d", fr.site, fnKey(fr.fn), kind, localOrdinal(fr.fn, in, kind))
	}
	return fmt.Sprintf("%s:%d", kind, n)
}

func instrKind(in ssa.Instruction) string {
	switch x := in.(type) {
	case *ssa.IndexAddr, *ssa.Index:
		return "index"
	case *ssa.Lookup:
		if _, ok := x.X.Type().Underlying().(*types.Map); ok {
			return ""
		}
		return "index"
	case *ssa.Slice:
		return "slice"
	case *ssa.FieldAddr, *ssa.Field:
		return "nil"
	case *ssa.TypeAssert:
		if !x.CommaOk {
			return "assert"
		}
	case *ssa.Panic:
		return "panic"
	case *ssa.BinOp:
		if x.Op == token.QUO || x.Op == token.REM {
			return "div"
		}
	case *ssa.UnOp:
		if x.Op == token.MUL {
			return "deref"
		}
	case *ssa.Store:
		return "store"
	case *ssa.MapUpdate:
		return "mapupdate"
	case ssa.CallInstruction:
		return "call"
	}
	return ""
}

func localOrdinal(fn *ssa.Function, target ssa.Instruction, kind string) int {
	n := 0
	for _, b := range fn.Blocks {
		for _, in := range b.Instrs {
			if instrKind(in) == kind {
				n++
			}
			if in == target {
				return n
			}
		}
	}
	return n
}

func (e *Exec) computeOrdinals() {
	e.ord = map[ssa.Instruction]int{}
	e.callOrd = map[ssa.Instruction]callSite{}
	cnt := map[string]int{}
	ccnt := map[string]int{}
	e.spliced = map[*ssa.Function]bool{}
	// helpers without a contract that the function calls exactly once and that the engine
	// executes in line: their call sites are numbered as if their body stood at the call, so
	// that `call F#k:` sections survive extracting statements into such a helper
	helperCalls := map[*ssa.Function]int{}
	for _, b := range e.fn.Blocks {
		for _, in := range b.Instrs {
			if c, ok := in.(*ssa.Call); ok {
				if g := c.Call.StaticCallee(); g != nil {
					helperCalls[g]++
				}
			}
		}
	}
	isHelper := func(in ssa.Instruction) *ssa.Function {
		c, ok := in.(*ssa.Call)
		if !ok || os.Getenv("GOVC_NO_SPLICE") != "" {
			return nil
		}
		g := c.Call.StaticCallee()
		if g == nil || g == e.fn || helperCalls[g] != 1 || !inModule(g) || g.Parent() != nil || e.P.contractFor(g) != nil || !e.canInline(g, 0) {
			return nil
		}
		return g
	}
	for _, b := range e.fn.Blocks {
		for _, in := range b.Instrs {
			if ci, ok := in.(ssa.CallInstruction); ok {
				n := callShortName(ci.Common())
				ccnt[n]++
				e.callOrd[in] = callSite{n, ccnt[n]}
				if g := isHelper(in); g != nil {
					e.spliced[g] = true
					for _, gb := range g.Blocks {
						for _, gin := range gb.Instrs {
							if gci, ok := gin.(ssa.CallInstruction); ok {
								gn := callShortName(gci.Common())
								ccnt[gn]++
								e.callOrd[gin] = callSite{gn, ccnt[gn]}
							}
							if _, ok := gin.(*ssa.Select); ok {
								ccnt["select"]++
								e.callOrd[gin] = callSite{"select", ccnt["select"]}
							}
							if _, ok := gin.(*ssa.Send); ok {
								ccnt["send"]++
								e.callOrd[gin] = callSite{"send", ccnt["send"]}
							}
						}
					}
				}
			}
			if _, ok := in.(*ssa.Select); ok {
				// selects are addressable like calls: `call select#k:`
				ccnt["select"]++
				e.callOrd[in] = callSite{"select", ccnt["select"]}
			}
			if _, ok := in.(*ssa.Send); ok {
				// channel sends are addressable like calls: `call send#k:`
				ccnt["send"]++
				e.callOrd[in] = callSite{"send", ccnt["send"]}
			}
			k := instrKind(in)
			if k != "" {
				cnt[k]++
				e.ord[in] = cnt[k]
			}
		}
	}
}

// oblige records an obligation `goal` under the current reach condition and
// then assumes it for everything that follows.
func (e *Exec) oblige(st *State, name, kind string, props []string, goal, desc string, pos token.Pos) *Obligation {
	full := e.name + "#" + name
	if goal == "true" {
		// trivially discharged obligations are still counted (syntactic discharge)
	}
	o := &Obligation{Name: full, Props: props, Kind: kind, Func: e.name, Desc: desc, Pos: posOf(e.P, pos),
		N: e.S.Len(), Hyp: []string{st.reach}, Goal: goal, Script: e.S, Inputs: append([]string{}, e.inputs...), Ex: e,
		Splits: append([]string{}, e.conds...)}
	e.obls = append(e.obls, o)
	if kind != "discipline" {
		// a discipline obligation is a check on the access, not a fact about the state:
		// assuming it (it may be the constant false) would make the rest of the path vacuous
		e.S.Assert(sImp(st.reach, goal))
	}
	return o
}

func (e *Exec) safety(fr *Frame, st *State, in ssa.Instruction, kind, goal, desc string) {
	if len(e.fc.Safety) == 0 {
		// panic-freedom not claimed for this function: assumed
		e.S.Assert(sImp(st.reach, goal))
		return
	}
	if goal == "true" {
		return
	}
	e.oblige(st, e.ordinalName(fr, in, kind), "safety", e.fc.Safety, goal, desc, in.Pos())
}

// ---------------------------------------------------------------------------
// control flow

type loopInfo struct {
	header *ssa.BasicBlock
	n      int
	blocks map[*ssa.BasicBlock]bool
	backs  []*ssa.BasicBlock
}

func findLoops(fn *ssa.Function) map[*ssa.BasicBlock]*loopInfo {
	loops := map[*ssa.BasicBlock]*loopInfo{}
	for _, b := range fn.Blocks {
		for _, s := range b.Succs {
			if s.Dominates(b) {
				li := loops[s]
				if li == nil {
					li = &loopInfo{header: s, blocks: map[*ssa.BasicBlock]bool{s: true}}
					loops[s] = li
				}
				li.backs = append(li.backs, b)
				// natural loop: nodes reaching b without passing s
				stack := []*ssa.BasicBlock{b}
				for len(stack) > 0 {
					x := stack[len(stack)-1]
					stack = stack[:len(stack)-1]
					if li.blocks[x] {
						continue
					}
					li.blocks[x] = true
					stack = append(stack, x.Preds...)
				}
			}
		}
	}
	var hs []*ssa.BasicBlock
	for h := range loops {
		hs = append(hs, h)
	}
	sort.Slice(hs, func(i, j int) bool { return hs[i].Index < hs[j].Index })
	for i, h := range hs {
		loops[h].n = i + 1
	}
	return loops
}

func rpo(fn *ssa.Function) []*ssa.BasicBlock {
	seen := map[*ssa.BasicBlock]bool{}
	var post []*ssa.BasicBlock
	var dfs func(b *ssa.BasicBlock)
	dfs = func(b *ssa.BasicBlock) {
		seen[b] = true
		for _, s := range b.Succs {
			if !seen[s] && !s.Dominates(b) {
				dfs(s)
			}
		}
		post = append(post, b)
	}
	if len(fn.Blocks) > 0 {
		dfs(fn.Blocks[0])
	}
	for i, j := 0, len(post)-1; i < j; i, j = i+1, j-1 {
		post[i], post[j] = post[j], post[i]
	}
	return post
}

func edgeCond(fr *Frame, e *Exec, p, b *ssa.BasicBlock, stp *State) string {
	last := p.Instrs[len(p.Instrs)-1]
	if iff, ok := last.(*ssa.If); ok {
		c := e.val(fr, iff.Cond, stp).t()
		if p.Succs[0] == b && p.Succs[1] == b {
			return "true"
		}
		if p.Succs[0] == b {
			return c
		}
		return sNot(c)
	}
	return "true"
}

// mergeStates joins states reached under mutually exclusive conditions.
func (e *Exec) mergeStates(sts []*State, conds []string) *State {
	if len(sts) == 1 {
		n := sts[0].clone()
		n.reach = e.S.Define("reach", "Bool", conds[0])
		return n
	}
	n := sts[0].clone()
	n.reach = e.S.Define("reach", "Bool", sOr(conds...))
	names := map[string]bool{}
	for _, s := range sts {
		for k := range s.heap {
			names[k] = true
		}
	}
	for _, name := range sortedKeys(names) {
		srt := e.arrSort[name]
		terms := make([]string, len(sts))
		same := true
		for i, s := range sts {
			terms[i] = e.arrTerm(s, name, srt)
			if terms[i] != terms[0] {
				same = false
			}
		}
		if same {
			n.heap[name] = terms[0]
			continue
		}
		t := terms[len(terms)-1]
		for i := len(terms) - 2; i >= 0; i-- {
			t = sIte(conds[i], terms[i], t)
		}
		n.heap[name] = e.S.Define(name, "(Array Int "+srt+")", t)
	}
	// top
	{
		t := sts[len(sts)-1].top
		for i := len(sts) - 2; i >= 0; i-- {
			t = sIte(conds[i], sts[i].top, t)
		}
		n.top = e.S.Define("top", "Int", t)
	}
	// heap version
	{
		t := sts[len(sts)-1].hv
		for i := len(sts) - 2; i >= 0; i-- {
			t = sIte(conds[i], sts[i].hv, t)
		}
		n.hv = e.S.Define("hv", "Int", t)
	}
	// identities of buffers stored in fields: kept only when all paths agree
	for k, v := range sts[0].fieldIdent {
		same := true
		for _, o := range sts[1:] {
			if o.fieldIdent[k] != v {
				same = false
			}
		}
		if same {
			n.fieldIdent[k] = v
		} else {
			delete(n.fieldIdent, k)
		}
	}
	// ownership flags (absent = false)
	{
		keys := map[string]bool{}
		for _, s := range sts {
			for k := range s.frozen {
				keys[k] = true
			}
		}
		fz := func(s *State, k string) string {
			if t, ok := s.frozen[k]; ok {
				return t
			}
			return "false"
		}
		for _, k := range sortedKeys(keys) {
			t := fz(sts[len(sts)-1], k)
			for i := len(sts) - 2; i >= 0; i-- {
				t = sIte(conds[i], fz(sts[i], k), t)
			}
			n.frozen[k] = t
		}
	}
	// ghost
	for g := range n.ghost {
		v := sts[len(sts)-1].ghost[g]
		for i := len(sts) - 2; i >= 0; i-- {
			v = valIte(conds[i], sts[i].ghost[g], v)
		}
		n.ghost[g] = v
	}
	// local arrays: keep only those identical in all states
	for k, la := range n.larr {
		for _, s := range sts[1:] {
			lb := s.larr[k]
			if lb == nil || len(lb.elems) != len(la.elems) {
				delete(n.larr, k)
				break
			}
			for i := range la.elems {
				if la.elems[i].K != lb.elems[i].K || strings.Join(la.elems[i].A, ",") != strings.Join(lb.elems[i].A, ",") {
					// merge element-wise
					c := conds[0]
					la.elems[i] = valIte(c, la.elems[i], lb.elems[i])
				}
			}
		}
	}
	// locks acquired in this call: path-sensitive (absent = not held)
	{
		keys := map[string]bool{}
		for _, s := range sts {
			for k := range s.mayHeld {
				keys[k] = true
			}
		}
		mh := func(s *State, k string) string {
			if t, ok := s.mayHeld[k]; ok {
				return t
			}
			return "false"
		}
		if len(keys) > 0 {
			n.mayHeld = map[string]string{}
		}
		for _, k := range sortedKeys(keys) {
			t := mh(sts[len(sts)-1], k)
			for i := len(sts) - 2; i >= 0; i-- {
				t = sIte(conds[i], mh(sts[i], k), t)
			}
			n.mayHeld[k] = t
		}
	}
	// held locks: intersection
	for k := range n.held {
		for _, s := range sts[1:] {
			if !s.held[k] {
				delete(n.held, k)
			}
		}
	}
	// defers: must agree
	for _, s := range sts[1:] {
		if len(s.defers) != len(n.defers) {
			e.unsupported("%s: conditional defer", e.name)
		}
	}
	return n
}

// runFrame executes the body of fr.fn from state st.
func (e *Exec) runFrame(fr *Frame, st0 *State) {
	fn := fr.fn
	if len(fn.Blocks) == 0 {
		e.unsupported("%s: no body", dispName(fn))
		return
	}
	prev := e.curFrame
	e.curFrame = fr
	defer func() { e.curFrame = prev }()
	loops := findLoops(fn)
	if len(loops) > 0 && !fr.top {
		e.unsupported("inlined function %s has loops", dispName(fn))
		return
	}
	fr.out = map[int]*State{}
	for _, b := range rpo(fn) {
		var st *State
		if b.Index == 0 {
			st = st0
		} else {
			var sts []*State
			var conds []string
			var preds []*ssa.BasicBlock
			for _, p := range b.Preds {
				if b.Dominates(p) {
					continue // back edge
				}
				ps := fr.out[p.Index]
				if ps == nil {
					continue
				}
				sts = append(sts, ps)
				conds = append(conds, sAnd(ps.reach, edgeCond(fr, e, p, b, ps)))
				preds = append(preds, p)
			}
			if len(sts) == 0 {
				continue
			}
			st = e.mergeStates(sts, conds)
			// phis
			li := loops[b]
			for _, in := range b.Instrs {
				phi, ok := in.(*ssa.Phi)
				if !ok {
					break
				}
				var v Val
				first := true
				for i := len(preds) - 1; i >= 0; i-- {
					pv := e.val(fr, phi.Edges[predIndex(b, preds[i])], sts[i])
					pv = coerce(pv, phi.Type())
					if first {
						v = pv
						first = false
					} else {
						v = valIte(conds[i], pv, v)
					}
				}
				pv := e.nameVal(fmt.Sprintf("%s_%s", phi.Name(), sanitize(phi.Comment)), v, phi.Type())
				if pv.K == KBytes && fr.top && e.ownership() {
					// the phi aliases whichever incoming array was selected
					pv.Ident = "phi:" + phi.Name()
					var al []aliasEdge
					for i := range preds {
						iv := e.val(fr, phi.Edges[predIndex(b, preds[i])], sts[i])
						if iv.Ident != "" {
							al = append(al, aliasEdge{conds[i], iv.Ident})
						}
					}
					e.aliasOf[pv.Ident] = al
				}
				fr.vals[phi] = pv
			}
			if fr.top {
				e.curBlock, e.curInstr = b, nil
			}
			if li != nil {
				st = e.cutLoop(fr, li, st)
				if st == nil {
					continue
				}
			}
		}
		alive := true
		if fr.top {
			e.curBlock = b
		}
		for _, in := range b.Instrs {
			if _, ok := in.(*ssa.Phi); ok {
				continue
			}
			if fr.top {
				e.curInstr = in
			}
			if !e.execInstr(fr, st, in) {
				alive = false
				break
			}
			if fr.top {
				e.trackIdent(fr, st, in)
			}
		}
		if alive {
			fr.out[b.Index] = st
			// back edges: check invariants
			for _, s := range b.Succs {
				if s.Dominates(b) {
					if li := loops[s]; li != nil {
						e.checkBackEdge(fr, li, b, st)
					}
				}
			}
		}
	}
}

func predIndex(b, p *ssa.BasicBlock) int {
	for i, x := range b.Preds {
		if x == p {
			return i
		}
	}
	return -1
}

func coerce(v Val, t types.Type) Val {
	k := kindOf(t)
	if v.K == k {
		return v
	}
	if k == KBytes && v.K == KRef {
		return vBytes(`""`, "true").withT(t)
	}
	return v
}

// nameVal introduces named constants for the components of v.
func (e *Exec) nameVal(prefix string, v Val, t types.Type) Val {
	r := Val{K: v.K, T: t, Elems: v.Elems, Boxed: v.Boxed}
	srt := sortsOf(v.K)
	for i, a := range v.A {
		r.A = append(r.A, e.S.Define(prefix, srt[i], a))
	}
	for i, f := range v.F {
		r.F = append(r.F, e.nameVal(fmt.Sprintf("%s_%d", prefix, i), f, f.T))
	}
	return r
}

// siteFrame: call sites of this frame are addressable by the contract's `call F#k:` sections
// (the function itself, or a helper spliced into its numbering and executed in line from it)
func (e *Exec) siteFrame(fr *Frame) bool {
	return fr.top || (fr.depth == 1 && e.spliced[fr.fn])
}
