package main

// Locks, atomics, maps, callbacks and the lock/role discipline obligations
// (DESIGN.md 3.6).

import (
	"fmt"
	"go/types"
	"strings"

	"golang.org/x/tools/go/ssa"
)

// lockKey names a mutex by the field path and the object that holds it.
func lockKey(a *Addr) string {
	switch a.kind {
	case aField:
		return fieldArrName(a.T, a.path) + "@" + a.base
	case aCell:
		return "cell@" + a.base
	}
	return "?"
}

func (e *Exec) execStdlibSync(fr *Frame, st *State, in ssa.CallInstruction, c *ssa.CallCommon, callee *ssa.Function, name string, rt types.Type) (Val, bool) {
	argAddr := func(i int) *Addr {
		if i >= len(c.Args) {
			return nil
		}
		if a, ok := fr.addrs[c.Args[i]]; ok {
			return a
		}
		return nil
	}
	switch name {
	case "sync.(*Mutex).Lock", "sync.(*RWMutex).Lock":
		if a := argAddr(0); a != nil {
			st.held[lockKey(a)] = true
			st.held["r:"+lockKey(a)] = true
			st.acquired(lockKey(a))
			// entering the monitor: state protected by the lock may have been changed by other holders
			e.enterMonitor(fr, st, a)
		}
		return vUnit(), true
	case "sync.(*RWMutex).RLock":
		if a := argAddr(0); a != nil {
			st.held["r:"+lockKey(a)] = true
			st.acquired("r:" + lockKey(a))
			e.enterMonitor(fr, st, a)
		}
		return vUnit(), true
	case "sync.(*Mutex).Unlock", "sync.(*RWMutex).Unlock":
		if a := argAddr(0); a != nil {
			e.leaveMonitor(fr, st, in.(ssa.Instruction), a)
			delete(st.held, lockKey(a))
			delete(st.held, "r:"+lockKey(a))
			st.released(lockKey(a))
		}
		return vUnit(), true
	case "sync.(*RWMutex).RUnlock":
		if a := argAddr(0); a != nil {
			delete(st.held, "r:"+lockKey(a))
			st.released("r:" + lockKey(a))
		}
		return vUnit(), true
	case "sync/atomic.AddInt64", "sync/atomic.AddInt32":
		if a := argAddr(0); a != nil {
			e.atomicAccess(fr, st, in.(ssa.Instruction), a)
			old := e.loadAddr(st, a)
			nv := vInt(e.S.Define("atomic", "Int", sx("+", old.t(), e.val(fr, c.Args[1], st).t())))
			e.storeAddr(st, a, nv)
			return nv.withT(rt), true
		}
	case "sync/atomic.LoadInt64", "sync/atomic.LoadInt32":
		if a := argAddr(0); a != nil {
			e.atomicAccess(fr, st, in.(ssa.Instruction), a)
			return e.loadAddr(st, a).withT(rt), true
		}
	case "sync/atomic.StoreInt64", "sync/atomic.StoreInt32":
		if a := argAddr(0); a != nil {
			e.atomicAccess(fr, st, in.(ssa.Instruction), a)
			e.storeAddr(st, a, e.val(fr, c.Args[1], st))
			return vUnit(), true
		}
	case "time.Now":
		return vInt(e.clockTick(st)).withT(rt), true
	case "time.(Time).In", "time.(Time).UTC":
		return e.val(fr, c.Args[0], st).withT(rt), true
	case "time.(Time).Add":
		return vInt(sx("+", e.val(fr, c.Args[0], st).t(), e.val(fr, c.Args[1], st).t())).withT(rt), true
	case "time.Until":
		return vInt(sx("-", e.val(fr, c.Args[0], st).t(), e.clockTick(st))).withT(rt), true
	case "time.Since":
		return vInt(sx("-", e.clockTick(st), e.val(fr, c.Args[0], st).t())).withT(rt), true
	case "context.WithCancel":
		r1 := e.alloc(st, "ctx", nil)
		r2 := e.alloc(st, "cancel", nil)
		if e.gfDeclared("cancelled") && e.gfDeclared("ctxOf") && e.gfDeclared("ctxParent") {
			// a new context is not cancelled; its cancel function cancels it; it is also
			// done when its parent is
			e.upd(st, "GF_cancelled", "Bool", r1, "false")
			e.upd(st, "GF_ctxOf", "Int", r2, r1)
			e.upd(st, "GF_ctxParent", "Int", r1, e.val(fr, c.Args[0], st).t())
		}
		return Val{K: KTuple, T: rt, F: []Val{vRef(r1), vRef(r2)}}, true
	case "context.Background":
		r := e.alloc(st, "ctx", nil)
		if e.gfDeclared("bgctx") {
			e.upd(st, "GF_bgctx", "Bool", r, "true")
		}
		return vRef(r).withT(rt), true
	case "time.NewTicker":
		r := e.alloc(st, "ticker", nil)
		if e.gfDeclared("tickPeriod") && e.gfDeclared("lastTick") {
			e.upd(st, "GF_tickPeriod", "Int", r, e.val(fr, c.Args[0], st).t())
			e.upd(st, "GF_lastTick", "Int", r, e.clockTick(st))
		}
		return vRef(r).withT(rt), true
	case "time.(*Ticker).Stop":
		return vUnit(), true
	}
	return Val{}, false
}

// clockTick: the ghost clock is monotone; every observation may have advanced it.
func (e *Exec) clockTick(st *State) string {
	cur, ok := st.ghost["clock"]
	n := e.S.Fresh("now", "Int")
	if ok {
		e.S.Assert(sx(">=", n, cur.t()))
		if sl, has := st.ghost["slack"]; has {
			// scheduling slack: between two consecutive clock observations of running
			// (not blocked) code at most `slack` passes
			e.S.Assert(sx("<=", sx("-", n, cur.t()), sl.t()))
		}
		st.ghost["clock"] = vInt(n).withT(cur.T)
	}
	return n
}

// clockBlocked: a blocking operation may take any amount of time.
func (e *Exec) clockBlocked(st *State) string {
	cur, ok := st.ghost["clock"]
	if !ok {
		return ""
	}
	n := e.S.Fresh("woke", "Int")
	e.S.Assert(sx(">=", n, cur.t()))
	st.ghost["clock"] = vInt(n).withT(cur.T)
	return n
}

func (e *Exec) gfDeclared(name string) bool {
	_, ok := e.P.CS.GhostFields[name]
	return ok
}

const tickerChanOrigin = "H_time_Ticker_C"
const ctxDoneOrigin = "context.Done"

// enterMonitor: on acquiring a lock, fields guarded by it take arbitrary
// values satisfying the monitor invariant (none declared: just havoc).
func (e *Exec) enterMonitor(fr *Frame, st *State, a *Addr) {
	for _, fd := range e.monitorDecls(a) {
		// the protected field may have been changed by other holders of the lock:
		// arbitrary value related to the last known one by the monitor's two-state invariant
		pre := st.clone()
		ft := e.monitorFieldType(a, fd)
		if ft == nil {
			continue
		}
		fresh := e.freshVal("mon_"+fd.Field, ft, kindOf(ft))
		e.writeAt(st, fieldArrName(a.T, fd.Field), ft, a.base, fresh)
		env := e.monitorEnv(fr, st, pre, a)
		e.S.Assert(sImp(st.reach, e.evalBool(env, fd.Inv)))
		if e.monAcq == nil {
			e.monAcq = map[string]*State{}
		}
		e.monAcq[lockKey(a)+"/"+fd.Field] = st.clone()
	}
}

// leaveMonitor: what this holder did to the protected field must itself satisfy
// the monitor's two-state invariant (relative to the value found on entry).
func (e *Exec) leaveMonitor(fr *Frame, st *State, in ssa.Instruction, a *Addr) {
	for _, fd := range e.monitorDecls(a) {
		acq := e.monAcq[lockKey(a)+"/"+fd.Field]
		if acq == nil {
			continue
		}
		env := e.monitorEnv(fr, st, acq, a)
		g := e.evalBool(env, fd.Inv)
		e.oblige(st, fmt.Sprintf("monitor:%s.%s:release:%d", lastSeg(fd.Type), fd.Field, e.ord[in]), "monitor", fd.Tags, g,
			"on release of "+fd.Args[0]+": "+fd.InvText, in.Pos())
	}
}

func (e *Exec) monitorEnv(fr *Frame, st, old *State, a *Addr) *Env {
	self := vRef(a.base).withT(types.NewPointer(a.T))
	var pkg *types.Package
	if n, ok := types.Unalias(a.T).(*types.Named); ok {
		pkg = n.Obj().Pkg()
	}
	oenv := &Env{e: e, pkg: pkg, vars: map[string]Val{"self": self}, st: old, ctx: "monitor invariant"}
	return &Env{e: e, pkg: pkg, vars: map[string]Val{"self": self}, st: st, old: oenv, ctx: "monitor invariant"}
}

func (e *Exec) monitorDecls(a *Addr) []*FieldDecl {
	if a == nil || a.kind != aField || e.prov[a.base] == "fresh" {
		return nil
	}
	var out []*FieldDecl
	for _, fd := range e.P.CS.Fields {
		if fd.Mode != "monitor" || fd.Args[0] != a.path {
			continue
		}
		var pk *types.Package
		if sp := e.P.SPkgs[fd.PkgPath]; sp != nil {
			pk = sp.Pkg
		}
		if t := resolveTypeIn(e.P, pk, fd.Type); t != nil && types.Identical(t, a.T) {
			out = append(out, fd)
		}
	}
	return out
}

func (e *Exec) monitorFieldType(a *Addr, fd *FieldDecl) types.Type {
	stt, _ := structOf(a.T)
	if stt == nil {
		return nil
	}
	for i := 0; i < stt.NumFields(); i++ {
		if stt.Field(i).Name() == fd.Field {
			return stt.Field(i).Type()
		}
	}
	return nil
}

// ---- discipline -----------------------------------------------------------------

func (p *Prog) fieldDecl(T types.Type, field string) *FieldDecl {
	p.initFieldDecls()
	return p.fdCache[fieldArrName(T, field)]
}

func (p *Prog) initFieldDecls() {
	if p.fdCache == nil {
		p.fdCache = map[string]*FieldDecl{}
		for _, fd := range p.CS.Fields {
			var pk *types.Package
			if sp := p.SPkgs[fd.PkgPath]; sp != nil {
				pk = sp.Pkg
			}
			t := resolveTypeIn(p, pk, fd.Type)
			if t == nil {
				fatalf("%s:%d: field declaration: unknown type %s", fd.File, fd.Line, fd.Type)
			}
			p.fdCache[fieldArrName(t, fd.Field)+"/"+fd.Mode] = fd
			if fd.Mode == "guarded_by" || fd.Mode == "atomic" || fd.Mode == "confined" || fd.Mode == "immutable_after" || fd.Mode == "owner_writes" {
				p.fdCache[fieldArrName(t, fd.Field)] = fd
			}
		}
	}
}

// disciplineAccess: obligations for declared protections of struct fields.
func (e *Exec) disciplineAccess(fr *Frame, st *State, in ssa.Instruction, a *Addr, write bool) {
	if a.kind != aField || e.fc == nil {
		return
	}
	root := a.path
	if i := strings.Index(root, "."); i >= 0 {
		root = root[:i]
	}
	fd := e.P.fieldDecl(a.T, root)
	if fd == nil {
		return
	}
	// objects allocated by this very execution are not shared yet
	if e.prov[a.base] == "fresh" {
		return
	}
	kind := "read"
	if write {
		kind = "write"
	}
	name := fmt.Sprintf("%s:%s.%s:%d", kind, lastSeg(fd.Type), fd.Field, e.accessOrdinal(fr, in, fd))
	if !fr.top {
		name = fr.site + "/" + fnKey(fr.fn) + "#" + name
	}
	switch fd.Mode {
	case "guarded_by":
		lk := fieldArrName(a.T, fd.Args[0]) + "@" + a.base
		ok := st.held[lk] || (!write && st.held["r:"+lk])
		e.oblige(st, "guard:"+name, "discipline", fd.Tags, boolStr(ok), fmt.Sprintf("%s of %s.%s requires %s to be held", kind, fd.Type, fd.Field, fd.Args[0]), in.Pos())
	case "owner_writes":
		// written only under the lock; read under the lock or, without it, by the
		// roles that share a goroutine with the writer
		lk := fieldArrName(a.T, fd.Args[0]) + "@" + a.base
		ok := st.held[lk]
		if !write && !ok {
			ok = len(e.fc.Roles) > 0
			for _, r := range e.fc.Roles {
				if !contains(fd.Args[1:], r) {
					ok = false
				}
			}
		}
		e.oblige(st, "guard:"+name, "discipline", fd.Tags, boolStr(ok), fmt.Sprintf("%s of %s.%s: writes need %s, lock-free reads are for roles %v (function roles %v)", kind, fd.Type, fd.Field, fd.Args[0], fd.Args[1:], e.fc.Roles), in.Pos())
	case "atomic":
		e.oblige(st, "atomic:"+name, "discipline", fd.Tags, "false", fmt.Sprintf("plain %s of %s.%s, which is declared atomic", kind, fd.Type, fd.Field), in.Pos())
	case "immutable_after":
		if write {
			okf := false
			for _, f := range fd.Args {
				if e.fn != nil && (fnKey(e.fn) == f || e.fn.Name() == f || (e.fn.Parent() != nil && (fnKey(e.fn.Parent()) == f || e.fn.Parent().Name() == f))) {
					okf = true
				}
				if fr.fn != nil && (fnKey(fr.fn) == f || fr.fn.Name() == f) {
					okf = true
				}
			}
			e.oblige(st, "immutable:"+name, "discipline", fd.Tags, boolStr(okf), fmt.Sprintf("write of %s.%s outside %v", fd.Type, fd.Field, fd.Args), in.Pos())
		}
	case "confined":
		okr := len(e.fc.Roles) > 0
		for _, r := range e.fc.Roles {
			if !contains(fd.Args, r) {
				okr = false
			}
		}
		e.oblige(st, "confined:"+name, "discipline", fd.Tags, boolStr(okr), fmt.Sprintf("%s of %s.%s from roles %v, confined to %v", kind, fd.Type, fd.Field, e.fc.Roles, fd.Args), in.Pos())
	}
}

func (e *Exec) atomicAccess(fr *Frame, st *State, in ssa.Instruction, a *Addr) {
	// accesses through sync/atomic satisfy an `atomic` declaration and violate nothing else
	e.inAtomic = true
}

func (e *Exec) accessOrdinal(fr *Frame, in ssa.Instruction, fd *FieldDecl) int {
	// ordinal of this access among the accesses of the same field in the function
	n := 0
	fn := fr.fn
	for _, b := range fn.Blocks {
		for _, i2 := range b.Instrs {
			var addr ssa.Value
			switch x := i2.(type) {
			case *ssa.Store:
				addr = x.Addr
			case *ssa.UnOp:
				addr = x.X
			}
			if fa, ok := addr.(*ssa.FieldAddr); ok {
				stt, _ := structOf(fa.X.Type())
				if stt != nil && stt.Field(fa.Field).Name() == fd.Field {
					n++
				}
			}
			if i2 == in {
				return n
			}
		}
	}
	return n
}

// ---- callbacks -----------------------------------------------------------------

func (e *Exec) callOpaque(fr *Frame, st *State, in ssa.CallInstruction, c *ssa.CallCommon, fv Val, rt types.Type) Val {
	mode := ""
	e.P.initFieldDecls()
	if fv.Origin != "" {
		if fd := e.P.fdCache[fv.Origin+"/callback"]; fd != nil {
			mode = "pure"
			if len(fd.Args) > 0 {
				mode = fd.Args[0]
			}
		}
	}
	if mode == "" {
		if fd := e.paramCallback(fr, c); fd != "" {
			mode = fd
		}
	}
	switch mode {
	case "pure":
		e.note("callback: %s calls an application callback declared pure (result unconstrained, library state untouched)", dispName(fr.fn))
	case "app":
		// an application handler: may do anything to application state, does not
		// touch library-private state (assumption recorded per property)
		e.note("callback: %s calls an application handler (assumed not to touch library-private state)", dispName(fr.fn))
		for _, m := range e.fc.Modifies {
			g := strings.TrimSpace(m)
			if g == "callN" || g == "callAt" || g == "callRet" {
				continue // written by traceCall below, not by the handler
			}
			if cur, ok := st.ghost[g]; ok && !e.isEpilogueTarget(g) {
				st.ghost[g] = e.freshVal("g_"+g, cur.T, cur.K)
			}
		}
		e.traceCall(fr, st, in, c, fv)
	default:
		e.note("opaque-call: %s calls a function value (result unconstrained; heap havocked)", dispName(fr.fn))
		e.havocAll(st)
	}
	if isCancelFunc(c.Value.Type()) && e.gfDeclared("cancelled") && e.gfDeclared("ctxOf") {
		// calling a context's cancel function cancels that context
		e.upd(st, "GF_cancelled", "Bool", e.sel(st, "GF_ctxOf", "Int", fv.t()), "true")
	}
	r := e.freshVal("fres", rt, kindOf(rt))
	e.typeFacts(r, rt, st)
	e.afterCallback(fr, st, in, c, fv, r)
	return r
}

func isCancelFunc(t types.Type) bool {
	return types.TypeString(types.Unalias(t), nil) == "context.CancelFunc"
}

// paramCallback: calls of function-typed parameters declared in the contract
// (clause `callback name mode`).
func (e *Exec) paramCallback(fr *Frame, c *ssa.CallCommon) string {
	if e.fc == nil {
		return ""
	}
	if p, ok := c.Value.(*ssa.Parameter); ok {
		for _, cb := range e.fc.Callbacks {
			f := strings.Fields(cb)
			if len(f) == 2 && f[0] == p.Name() {
				return f[1]
			}
		}
	}
	return e.fc.DefaultCallback
}

// traceCall: application handlers invoked by the library are logged in the
// ghost call trace (callN, callAt, callRet), identified by the handler value
// (the first argument when the callee is itself a dispatcher parameter).
func (e *Exec) traceCall(fr *Frame, st *State, in ssa.CallInstruction, c *ssa.CallCommon, fv Val) {
	n, ok1 := st.ghost["callN"]
	at, ok2 := st.ghost["callAt"]
	if !ok1 || !ok2 {
		return
	}
	who := fv.t()
	if len(c.Args) > 0 {
		if a := e.val(fr, c.Args[0], st); a.K == KRef {
			if _, isFn := c.Args[0].Type().Underlying().(*types.Signature); isFn {
				who = a.t()
			}
		}
	}
	e.lastTraceIdx = n.t()
	st.ghost["callAt"] = Val{K: KMap, A: []string{e.S.Define("callAt", "(Array Int Int)", sx("store", at.t(), n.t(), who))}}
	st.ghost["callN"] = vInt(e.S.Define("callN", "Int", sx("+", n.t(), "1")))
}

func (e *Exec) afterCallback(fr *Frame, st *State, in ssa.CallInstruction, c *ssa.CallCommon, fv Val, r Val) {
	rt, ok := st.ghost["callRet"]
	if !ok || e.lastTraceIdx == "" || r.K != KBool {
		return
	}
	st.ghost["callRet"] = Val{K: KMap, A: []string{e.S.Define("callRet", "(Array Int Int)", sx("store", rt.t(), e.lastTraceIdx, sIte(r.t(), "1", "0")))}}
	e.lastTraceIdx = ""
}

// ---- channels and goroutines (ghost logs are attached in contracts) --------------

func (e *Exec) execGo(fr *Frame, st *State, x *ssa.Go) {
	e.note("%s: go statement (spawned function verified separately if under contract)", dispName(fr.fn))
	c := x.Common()
	callee := c.StaticCallee()
	if callee != nil && inModule(callee) {
		if fc := e.P.contractFor(callee); fc != nil && !c.IsInvoke() {
			// the spawned function starts in the spawner's current state: its
			// preconditions are obligations of the spawner
			fc.Used = true
			args := e.callArgs(fr, st, c)
			var pk *types.Package
			if sp := e.P.SPkgs[fc.PkgPath]; sp != nil {
				pk = sp.Pkg
			}
			penv := &Env{e: e, pkg: pk, vars: map[string]Val{}, st: st, ctx: "go " + dispName(callee)}
			e.bindParams(penv, fc, callee, args)
			if mc, ok := c.Value.(*ssa.MakeClosure); ok {
				binds := e.val(fr, mc, st).Elems
				for i, fv := range callee.FreeVars {
					if i >= len(binds) {
						break
					}
					if pt, ok := fv.Type().Underlying().(*types.Pointer); ok {
						if _, isStruct := pt.Elem().Underlying().(*types.Struct); !isStruct || isOpaqueStruct(pt.Elem()) {
							penv.vars[fv.Name()] = e.readCell(st, binds[i].t(), pt.Elem())
							continue
						}
					}
					penv.vars[fv.Name()] = binds[i]
				}
			}
			k := 0
			name := callee.Name()
			if cs, ok := e.callOrd[x]; ok {
				k, name = cs.k, cs.name
			}
			if fc.IsClosure {
				name = fc.Label
			}
			for i, rq := range fc.Requires {
				lbl := rq.Label
				if lbl == "" {
					lbl = fmt.Sprintf("%d", i+1)
				}
				g := e.evalBool(penv, rq.Expr)
				e.oblige(st, fmt.Sprintf("go:%s#%d:pre:%s", name, k, lbl), "pre", rq.Tags, g, rq.Text, x.Pos())
			}
		}
	}
	if e.siteFrame(fr) && e.fc != nil {
		if cs, ok := e.callOrd[x]; ok && e.hasSiteAfter(cs) {
			var args []*Val
			for _, a := range c.Args {
				if _, isAddr := fr.addrs[a]; !isAddr {
					av := e.val(fr, a, st)
					args = append(args, &av)
				} else {
					args = append(args, nil)
				}
			}
			e.runSiteAfter(fr, st, x, cs, args, nil)
		}
	}
}

func (e *Exec) execSelect(fr *Frame, st *State, x *ssa.Select) {
	idx := e.S.Fresh("select", "Int")
	lo := "0"
	if !x.Blocking {
		lo = "(- 1)"
	}
	e.S.Assert(sAnd(sx("<=", lo, idx), sx("<", idx, sInt(int64(len(x.States))))))
	tp := x.Type().(*types.Tuple)
	res := Val{K: KTuple, T: x.Type(), F: []Val{vInt(idx), vBool(e.S.Fresh("recvok", "Bool"))}}
	for i := 2; i < tp.Len(); i++ {
		v := e.freshVal("recv", tp.At(i).Type(), kindOf(tp.At(i).Type()))
		e.typeFacts(v, tp.At(i).Type(), st)
		res.F = append(res.F, v)
	}
	fr.vals[x] = res
	e.selectHook(fr, st, x, res)
	e.selectTiming(fr, st, x, idx)
	if e.siteFrame(fr) && e.fc != nil {
		if cs, ok := e.callOrd[x]; ok && e.hasSiteAfter(cs) {
			e.runSiteAfter(fr, st, x, cs, nil, &res)
		}
	}
}

// selectTiming: a blocking select may take any amount of time, except that a
// ticker's channel delivers within one period (plus scheduling slack) of its
// previous delivery; a context's Done channel is ready only once the context
// (or an ancestor other than the background context) has been cancelled.
func (e *Exec) selectTiming(fr *Frame, st *State, x *ssa.Select, idx string) {
	var now string
	if x.Blocking {
		now = e.clockBlocked(st)
	}
	for i, s := range x.States {
		if s.Dir != types.RecvOnly {
			continue
		}
		ch := e.val(fr, s.Chan, st)
		taken := sEq(idx, sInt(int64(i)))
		switch ch.Origin {
		case tickerChanOrigin:
			if now == "" || !e.gfDeclared("tickPeriod") || !e.gfDeclared("lastTick") {
				continue
			}
			tk := ch.OriginBase
			last := e.sel(st, "GF_lastTick", "Int", tk)
			per := e.sel(st, "GF_tickPeriod", "Int", tk)
			bound := per
			if sl, has := st.ghost["slack"]; has {
				bound = sx("+", per, sl.t())
			}
			e.S.Assert(sImp(sAnd(st.reach, taken), sx("<=", sx("-", now, last), bound)))
			e.upd(st, "GF_lastTick", "Int", tk, sIte(taken, now, last))
		case ctxDoneOrigin:
			if !e.gfDeclared("cancelled") || !e.gfDeclared("ctxParent") || !e.gfDeclared("bgctx") {
				continue
			}
			cx := ch.OriginBase
			par := e.sel(st, "GF_ctxParent", "Int", cx)
			e.S.Assert(sImp(sAnd(st.reach, taken), sOr(e.sel(st, "GF_cancelled", "Bool", cx), sNot(e.sel(st, "GF_bgctx", "Bool", par)))))
		}
	}
}

func (e *Exec) execSend(fr *Frame, st *State, x *ssa.Send) {
	e.clockBlocked(st)
	e.sendHook(fr, st, x)
	e.handOver(fr, st, e.val(fr, x.X, st), "true")
	if e.siteFrame(fr) && e.fc != nil {
		if cs, ok := e.callOrd[x]; ok && e.hasSiteAfter(cs) {
			ch, v := e.val(fr, x.Chan, st), e.val(fr, x.X, st)
			e.runSiteAfter(fr, st, x, cs, []*Val{&ch, &v}, nil)
		}
	}
}

func (e *Exec) execRecv(fr *Frame, st *State, x *ssa.UnOp) {
	e.clockBlocked(st)
	var v Val
	if x.CommaOk {
		tp := x.Type().(*types.Tuple)
		v = Val{K: KTuple, T: x.Type(), F: []Val{e.freshVal("recv", tp.At(0).Type(), kindOf(tp.At(0).Type())), vBool(e.S.Fresh("recvok", "Bool"))}}
	} else {
		v = e.freshVal("recv", x.Type(), kindOf(x.Type()))
		e.typeFacts(v, x.Type(), st)
	}
	fr.vals[x] = v
	if cl := e.chanLogOf(e.val(fr, x.X, st)); cl != nil {
		if x.CommaOk {
			e.logRecv(st, cl, v.F[0], v.F[1].t(), "true")
		} else {
			e.logRecv(st, cl, v, "true", "true")
		}
	}
}

func (e *Exec) execClose(fr *Frame, st *State, in ssa.CallInstruction, ch ssa.Value) {}
func (e *Exec) chanLogOf(ch Val) *ChanLog {
	if ch.Origin == "" {
		return nil
	}
	if strings.HasPrefix(ch.Origin, "chanlog:") {
		for _, cl := range e.P.CS.ChanLogs {
			if cl.N == ch.Origin[len("chanlog:"):] {
				return cl
			}
		}
		return nil
	}
	for _, cl := range e.P.CS.ChanLogs {
		var pk *types.Package
		if sp := e.P.SPkgs[cl.PkgPath]; sp != nil {
			pk = sp.Pkg
		}
		if t := resolveTypeIn(e.P, pk, cl.Type); t != nil && fieldArrName(t, cl.Field) == ch.Origin {
			return cl
		}
	}
	return nil
}

// logSend appends v to the channel's ghost log when cond holds.
func (e *Exec) logSend(st *State, cl *ChanLog, v Val, cond string) {
	n, ok1 := st.ghost[cl.N]
	at, ok2 := st.ghost[cl.At]
	if !ok1 || !ok2 {
		return
	}
	var elem string
	if at.K == KSMap {
		elem = asStr(v)
	} else {
		elem = v.t()
	}
	srt := sortsOf(at.K)[0]
	st.ghost[cl.At] = Val{K: at.K, A: []string{e.S.Define(cl.At, srt, sIte(cond, sx("store", at.t(), n.t(), elem), at.t()))}}
	st.ghost[cl.N] = vInt(e.S.Define(cl.N, "Int", sIte(cond, sx("+", n.t(), "1"), n.t())))
}

// logRecv: a value received from a logged channel is the next unconsumed element.
func (e *Exec) logRecv(st *State, cl *ChanLog, v Val, okTerm, cond string) {
	if cl.Recv == "" {
		return
	}
	r, ok1 := st.ghost[cl.Recv]
	at, ok2 := st.ghost[cl.At]
	if !ok1 || !ok2 {
		return
	}
	got := sAnd(cond, okTerm)
	var elem string
	if at.K == KSMap {
		elem = asStr(v)
	} else {
		elem = v.t()
	}
	e.S.Assert(sImp(got, sEq(elem, sx("select", at.t(), r.t()))))
	st.ghost[cl.Recv] = vInt(e.S.Define(cl.Recv, "Int", sIte(got, sx("+", r.t(), "1"), r.t())))
}

func (e *Exec) selectHook(fr *Frame, st *State, x *ssa.Select, res Val) {
	idx := res.F[0].t()
	ri := 2
	for i, s := range x.States {
		ch := e.val(fr, s.Chan, st)
		cl := e.chanLogOf(ch)
		cond := sEq(idx, sInt(int64(i)))
		if s.Dir == types.SendOnly {
			e.handOver(fr, st, e.val(fr, s.Send, st), cond)
			if cl != nil {
				e.logSend(st, cl, e.val(fr, s.Send, st), cond)
			}
			continue
		}
		if ri < len(res.F) {
			if cl != nil {
				e.logRecv(st, cl, res.F[ri], res.F[1].t(), cond)
			}
			ri++
		}
	}
}

func (e *Exec) sendHook(fr *Frame, st *State, x *ssa.Send) {
	ch := e.val(fr, x.Chan, st)
	if cl := e.chanLogOf(ch); cl != nil {
		e.logSend(st, cl, e.val(fr, x.X, st), "true")
	}
}

// ---- maps -----------------------------------------------------------------------
// A map is a reference m; MAPD_<K>[m] is its domain (Array K Bool) and
// MAPV_<K>_<V>[m] its values (Array K V). K is Int or String.

func mapSorts(t *types.Map) (ks, vs string, ok bool) {
	switch kindOf(t.Key()) {
	case KInt, KRef:
		ks = "Int"
	case KStr:
		ks = "String"
	default:
		return "", "", false
	}
	switch kindOf(t.Elem()) {
	case KInt, KRef:
		vs = "Int"
	case KBool:
		vs = "Bool"
	case KStr:
		vs = "String"
	case KStruct:
		vs = "Bool" // struct{} values: presence only
	default:
		return "", "", false
	}
	return ks, vs, true
}

func (e *Exec) mapArrs(t *types.Map) (dn, ds, vn, vsrt string, ok bool) {
	ks, vs, ok := mapSorts(t)
	if !ok {
		return
	}
	return "MAPD_" + ks, "(Array " + ks + " Bool)", "MAPV_" + ks + "_" + vs, "(Array " + ks + " " + vs + ")", true
}

func (e *Exec) initMap(st *State, r string, t types.Type) {
	mt := t.Underlying().(*types.Map)
	dn, ds, _, _, ok := e.mapArrs(mt)
	if !ok {
		e.unsupported("%s: map type %v", e.name, t)
		return
	}
	ks, _, _ := mapSorts(mt)
	e.upd(st, dn, ds, r, "((as const (Array "+ks+" Bool)) false)")
}

func (e *Exec) mapLen(st *State, r string, t *types.Map) string {
	n := e.S.Fresh("maplen", "Int")
	e.S.Assert(sx("<=", "0", n))
	return n
}

func (e *Exec) execMapLookup(fr *Frame, st *State, x *ssa.Lookup) {
	mt := x.X.Type().Underlying().(*types.Map)
	dn, ds, vn, vsrt, ok := e.mapArrs(mt)
	m := e.val(fr, x.X, st)
	k := e.val(fr, x.Index, st)
	e.disciplineMap(fr, st, x, x.X, false)
	var vt types.Type = x.Type()
	if x.CommaOk {
		vt = x.Type().(*types.Tuple).At(0).Type()
	}
	if !ok {
		e.unsupported("%s: map lookup on %v", e.name, x.X.Type())
		fr.vals[x] = e.freshVal("mlook", x.Type(), kindOf(x.Type()))
		return
	}
	e.disciplineMap(fr, st, x, x.X, false)
	dom := sx("select", e.sel(st, dn, ds, m.t()), k.t())
	// a nil map has an empty domain
	present := e.S.Define("mhas", "Bool", sAnd(sNot(sEq(m.t(), "0")), dom))
	raw := sx("select", e.sel(st, vn, vsrt, m.t()), k.t())
	var v Val
	switch kindOf(vt) {
	case KInt:
		v = vInt(sIte(present, raw, "0"))
	case KRef:
		d := e.S.Define("mval", "Int", sIte(present, raw, "0"))
		e.S.Assert(sx("<=", d, st.top))
		v = vRef(d)
	case KBool:
		v = vBool(sIte(present, raw, "false"))
	case KStr:
		v = vStr(sIte(present, raw, `""`))
	case KStruct:
		v = zeroVal(vt)
	}
	v.T = vt
	if x.CommaOk {
		fr.vals[x] = Val{K: KTuple, T: x.Type(), F: []Val{v, vBool(present)}}
	} else {
		fr.vals[x] = v
	}
}

func (e *Exec) execMapUpdate(fr *Frame, st *State, x *ssa.MapUpdate) {
	mt := x.Map.Type().Underlying().(*types.Map)
	dn, ds, vn, vsrt, ok := e.mapArrs(mt)
	if !ok {
		e.unsupported("%s: map update on %v", e.name, x.Map.Type())
		return
	}
	m := e.val(fr, x.Map, st)
	k := e.val(fr, x.Key, st)
	v := e.val(fr, x.Value, st)
	e.safety(fr, st, x, "mapupdate", sNot(sEq(m.t(), "0")), "assignment to entry in nil map")
	e.disciplineMap(fr, st, x, x.Map, true)
	e.upd(st, dn, ds, m.t(), sx("store", e.sel(st, dn, ds, m.t()), k.t(), "true"))
	vt := "true"
	if v.K != KStruct {
		vt = v.t()
	}
	e.upd(st, vn, vsrt, m.t(), sx("store", e.sel(st, vn, vsrt, m.t()), k.t(), vt))
}

func (e *Exec) execMapDelete(fr *Frame, st *State, mv, kv ssa.Value) {
	mt := mv.Type().Underlying().(*types.Map)
	dn, ds, _, _, ok := e.mapArrs(mt)
	if !ok {
		return
	}
	m := e.val(fr, mv, st)
	k := e.val(fr, kv, st)
	e.upd(st, dn, ds, m.t(), sx("store", e.sel(st, dn, ds, m.t()), k.t(), "false"))
}

// disciplineMap: element accesses of a map held in a guarded field count as
// accesses of that field (the map header is read under the same protection).
func (e *Exec) disciplineMap(fr *Frame, st *State, in ssa.Instruction, m ssa.Value, write bool) {
	if u, ok := m.(*ssa.UnOp); ok {
		if a, ok := fr.addrs[u.X]; ok && write {
			e.disciplineAccess(fr, st, in, a, true)
			return
		}
	}
	// the map value itself was read from a protected field earlier (possibly under
	// the lock): its contents need the protection at the time they are accessed
	mv := e.val(fr, m, st)
	if mv.Origin == "" || e.fc == nil || e.prov[mv.OriginBase] == "fresh" {
		return
	}
	e.P.initFieldDecls()
	fd := e.P.fdCache[mv.Origin]
	if fd == nil || (fd.Mode != "guarded_by" && fd.Mode != "owner_writes") {
		return
	}
	var T types.Type
	if sp := e.P.SPkgs[fd.PkgPath]; sp != nil {
		T = resolveTypeIn(e.P, sp.Pkg, fd.Type)
	}
	if T == nil {
		return
	}
	lk := fieldArrName(T, fd.Args[0]) + "@" + mv.OriginBase
	ok := st.held[lk] || (!write && st.held["r:"+lk])
	kind := "read"
	if write {
		kind = "write"
	}
	e.callSeen["map:"+fd.Field]++
	name := fmt.Sprintf("guard:map%s:%s.%s:%d", kind, lastSeg(fd.Type), fd.Field, e.callSeen["map:"+fd.Field])
	if !fr.top {
		name = fr.site + "/" + fnKey(fr.fn) + "#" + name
	}
	e.oblige(st, name, "discipline", fd.Tags, boolStr(ok), fmt.Sprintf("%s of the contents of %s.%s requires %s to be held", kind, fd.Type, fd.Field, fd.Args[0]), in.Pos())
}

// acquired records that the lock was taken in the function under verification; every
// return of that function must have released it again (checked in checkPosts).
func (st *State) acquired(key string) {
	if st.mayHeld == nil {
		st.mayHeld = map[string]string{}
	}
	st.mayHeld[key] = "true"
}

func (st *State) released(key string) {
	if _, ok := st.mayHeld[key]; ok {
		st.mayHeld[key] = "false"
	}
}
