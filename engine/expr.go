package main

// Evaluation of contract expressions (Go expression syntax) into symbolic values.

import (
	"fmt"
	"go/ast"
	"go/token"
	"go/types"
	"strconv"
	"strings"
)

type Env struct {
	e    *Exec
	pkg  *types.Package
	vars map[string]Val
	st   *State
	old  *Env
	self *Val
	ctx  string // for error messages
	soft bool   // unknown identifiers abort the clause instead of the run
}

func (env *Env) child() *Env {
	n := &Env{e: env.e, pkg: env.pkg, vars: map[string]Val{}, st: env.st, old: env.old, ctx: env.ctx, soft: env.soft}
	for k, v := range env.vars {
		n.vars[k] = v
	}
	return n
}

type softFail struct{ msg string }

func (env *Env) fail(f string, a ...interface{}) Val {
	msg := fmt.Sprintf(f, a...)
	if env.soft {
		panic(softFail{msg})
	}
	fatalf("contract expression error (%s): %s", env.ctx, msg)
	return vUnit()
}

// resolveType resolves a type expression written in a contract.
func (env *Env) resolveType(src string) types.Type {
	return resolveTypeIn(env.e.P, env.pkg, src)
}

func resolveTypeIn(p *Prog, pkg *types.Package, src string) types.Type {
	src = strings.TrimSpace(src)
	switch src {
	case "bytes":
		return types.NewSlice(types.Typ[types.Uint8])
	case "ref":
		return types.Typ[types.UnsafePointer]
	case "seq":
		return types.NewSlice(types.Typ[types.Int])
	}
	ex, err := parserParseExpr(src)
	if err != nil {
		return nil
	}
	return typeFromAST(p, pkg, ex)
}

func typeFromAST(p *Prog, pkg *types.Package, ex ast.Expr) types.Type {
	switch x := ex.(type) {
	case *ast.Ident:
		if pkg != nil {
			if obj := pkg.Scope().Lookup(x.Name); obj != nil {
				if tn, ok := obj.(*types.TypeName); ok {
					return tn.Type()
				}
			}
		}
		if obj := types.Universe.Lookup(x.Name); obj != nil {
			if tn, ok := obj.(*types.TypeName); ok {
				return tn.Type()
			}
		}
		// bare name of a type in some module package
		for _, pk := range p.Pkgs {
			if obj := pk.Types.Scope().Lookup(x.Name); obj != nil {
				if tn, ok := obj.(*types.TypeName); ok {
					return tn.Type()
				}
			}
		}
	case *ast.SelectorExpr:
		id, ok := x.X.(*ast.Ident)
		if !ok {
			return nil
		}
		for _, sp := range p.SSA.AllPackages() {
			if sp.Pkg.Name() == id.Name {
				if obj := sp.Pkg.Scope().Lookup(x.Sel.Name); obj != nil {
					if tn, ok := obj.(*types.TypeName); ok {
						return tn.Type()
					}
				}
			}
		}
	case *ast.StarExpr:
		if t := typeFromAST(p, pkg, x.X); t != nil {
			return types.NewPointer(t)
		}
	case *ast.ArrayType:
		if x.Len == nil {
			if t := typeFromAST(p, pkg, x.Elt); t != nil {
				return types.NewSlice(t)
			}
		}
	case *ast.InterfaceType:
		return types.NewInterfaceType(nil, nil)
	case *ast.MapType:
		k, v := typeFromAST(p, pkg, x.Key), typeFromAST(p, pkg, x.Value)
		if k != nil && v != nil {
			return types.NewMap(k, v)
		}
	case *ast.StructType:
		if x.Fields == nil || len(x.Fields.List) == 0 {
			return types.NewStruct(nil, nil)
		}
	case *ast.ParenExpr:
		return typeFromAST(p, pkg, x.X)
	}
	return nil
}

func (e *Exec) evalBool(env *Env, x ast.Expr) string {
	v := e.evalExpr(env, x)
	if v.K != KBool {
		env.fail("expected a boolean in %s, got %v", exprString(x), v.K)
	}
	return v.t()
}

func exprString(x ast.Expr) string { return types.ExprString(x) }

func (e *Exec) evalExpr(env *Env, x ast.Expr) Val {
	switch x := x.(type) {
	case *ast.ParenExpr:
		return e.evalExpr(env, x.X)
	case *ast.BasicLit:
		switch x.Kind {
		case token.INT:
			if isDecimal(x.Value) {
				return vInt(x.Value) // arbitrary precision
			}
			n, _ := strconv.ParseInt(x.Value, 0, 64)
			return vInt(sInt(n))
		case token.STRING:
			s, _ := strconv.Unquote(x.Value)
			return vStr(sStr(s))
		case token.CHAR:
			s, _ := strconv.Unquote(x.Value)
			return vInt(sInt(int64(s[0])))
		}
	case *ast.Ident:
		return e.evalIdent(env, x)
	case *ast.UnaryExpr:
		v := e.evalExpr(env, x.X)
		switch x.Op {
		case token.NOT:
			return vBool(sNot(v.t()))
		case token.SUB:
			return vInt(sx("-", v.t()))
		}
	case *ast.BinaryExpr:
		return e.evalBinary(env, x)
	case *ast.CallExpr:
		return e.evalCall(env, x)
	case *ast.SelectorExpr:
		return e.evalSelector(env, x)
	case *ast.IndexExpr:
		b := e.evalExpr(env, x.X)
		i := e.evalExpr(env, x.Index)
		return e.indexVal(env, b, i)
	case *ast.TypeAssertExpr:
		v := e.evalExpr(env, x.X)
		t := env.resolveType(exprString(x.Type))
		if t == nil {
			env.fail("unknown type %s", exprString(x.Type))
		}
		if _, ok := t.Underlying().(*types.Pointer); ok {
			return vRef(v.t()).withT(t)
		}
		return e.unbox(env.st, v.t(), t)
	case *ast.StarExpr:
		// *p : load through a pointer value
		v := e.evalExpr(env, x.X)
		if v.T != nil {
			if pt, ok := v.T.Underlying().(*types.Pointer); ok {
				if _, ok := pt.Elem().Underlying().(*types.Struct); !ok {
					return e.readCell(env.st, v.t(), pt.Elem())
				}
			}
		}
		return v
	}
	return env.fail("unsupported expression %s (%T)", exprString(x), x)
}

func (e *Exec) evalIdent(env *Env, x *ast.Ident) Val {
	switch x.Name {
	case "true":
		return vBool("true")
	case "false":
		return vBool("false")
	case "nil":
		return vRef("0")
	case "nilbytes":
		return vBytes(`""`, "true")
	case "emptystrs":
		return vSeqTerm(constArr("String"), "0")
	case "SOH":
		return vStr(sStr("\x01"))
	}
	if v, ok := env.vars[x.Name]; ok {
		return v
	}
	if env.st != nil {
		if v, ok := env.st.ghost[x.Name]; ok {
			return v
		}
	}
	// package-level constants
	if env.pkg != nil {
		if obj := env.pkg.Scope().Lookup(x.Name); obj != nil {
			if c, ok := obj.(*types.Const); ok {
				return constToVal(c)
			}
		}
	}
	// declared package-level variables (`global Name = value`)
	if env.pkg != nil {
		if gd := e.P.CS.Globals[env.pkg.Path()+"."+x.Name]; gd != nil {
			genv := &Env{e: e, vars: map[string]Val{}, st: env.st, ctx: "global " + x.Name}
			return e.evalExpr(genv, gd.Expr)
		}
	}
	return env.fail("unknown identifier %q", x.Name)
}

func constToVal(c *types.Const) Val {
	switch kindOf(c.Type()) {
	case KStr:
		s, _ := strconv.Unquote(c.Val().ExactString())
		return vStr(sStr(s)).withT(c.Type())
	case KBool:
		return vBool(c.Val().String()).withT(c.Type())
	}
	n, _ := strconv.ParseInt(c.Val().ExactString(), 10, 64)
	return vInt(sInt(n)).withT(c.Type())
}

func asStr(v Val) string {
	switch v.K {
	case KStr, KBytes:
		return v.A[0]
	}
	panic(fmt.Sprintf("expected string-like value, got %v", v.K))
}

func (e *Exec) evalBinary(env *Env, x *ast.BinaryExpr) Val {
	switch x.Op {
	case token.LAND:
		return vBool(sAnd(e.evalBool(env, x.X), e.evalBool(env, x.Y)))
	case token.LOR:
		return vBool(sOr(e.evalBool(env, x.X), e.evalBool(env, x.Y)))
	}
	a := e.evalExpr(env, x.X)
	b := e.evalExpr(env, x.Y)
	switch x.Op {
	case token.EQL, token.NEQ:
		var c string
		switch {
		case a.K == KStr && b.K == KBytes, a.K == KBytes && b.K == KStr:
			c = sEq(a.A[0], b.A[0])
		case a.K == KInt && b.K == KRef, a.K == KRef && b.K == KInt:
			c = sEq(a.A[0], b.A[0])
		default:
			c = valEqLoose(a, b)
		}
		if x.Op == token.NEQ {
			c = sNot(c)
		}
		return vBool(c)
	case token.LSS:
		return vBool(sx("<", a.t(), b.t()))
	case token.LEQ:
		return vBool(sx("<=", a.t(), b.t()))
	case token.GTR:
		return vBool(sx(">", a.t(), b.t()))
	case token.GEQ:
		return vBool(sx(">=", a.t(), b.t()))
	case token.ADD:
		if a.K == KStr || a.K == KBytes {
			return vStr(sConcat(asStr(a), asStr(b)))
		}
		return vInt(sx("+", a.t(), b.t()))
	case token.SUB:
		return vInt(sx("-", a.t(), b.t()))
	case token.MUL:
		return vInt(sx("*", a.t(), b.t()))
	case token.QUO:
		return vInt(sx("div", a.t(), b.t())) // spec-level: Euclidean, use on non-negative operands
	case token.REM:
		return vInt(sx("mod", a.t(), b.t()))
	}
	return env.fail("unsupported operator %v", x.Op)
}

func (e *Exec) indexVal(env *Env, b, i Val) Val {
	switch b.K {
	case KStr, KBytes:
		return vInt(sx("str.to_code", sx("str.at", b.A[0], i.t())))
	case KRef:
		if b.T != nil {
			if sl, ok := b.T.Underlying().(*types.Slice); ok {
				s := e.seqOf(env.st, b.t(), sl.Elem())
				return e.elemPure(sx("select", s, i.t()), sl.Elem())
			}
		}
	}
	return env.fail("cannot index a %v", b.K)
}

// elemPure converts an element term to a value without side assumptions.
func (e *Exec) elemPure(t string, elemT types.Type) Val {
	switch kindOf(elemT) {
	case KInt:
		return vInt(t).withT(elemT)
	case KBool:
		return vBool(t).withT(elemT)
	case KStr:
		return vStr(t).withT(elemT)
	case KBytes:
		return vBytes(t, "false").withT(elemT)
	}
	return vRef(t).withT(elemT)
}

func (e *Exec) evalSelector(env *Env, x *ast.SelectorExpr) Val {
	// package-qualified constant?
	if id, ok := x.X.(*ast.Ident); ok {
		if _, isVar := env.vars[id.Name]; !isVar {
			for _, pk := range e.P.Pkgs {
				if pk.Types.Name() == id.Name {
					if obj := pk.Types.Scope().Lookup(x.Sel.Name); obj != nil {
						if c, ok := obj.(*types.Const); ok {
							return constToVal(c)
						}
					}
				}
			}
		}
	}
	base := e.evalExpr(env, x.X)
	if base.K == KStruct {
		stt := base.T.Underlying().(*types.Struct)
		for i := 0; i < stt.NumFields(); i++ {
			if stt.Field(i).Name() == x.Sel.Name {
				return base.F[i]
			}
		}
		return env.fail("no field %s in %v", x.Sel.Name, base.T)
	}
	if base.T == nil {
		return env.fail("selector %s on a value of unknown type", exprString(x))
	}
	stt, T := structOf(base.T)
	if stt == nil {
		return env.fail("selector %s: %v is not a struct pointer", exprString(x), base.T)
	}
	if v, ok := e.fieldThrough(env.st, stt, T, base.t(), x.Sel.Name); ok {
		return v
	}
	return env.fail("no field %s in %v", x.Sel.Name, T)
}

// fieldThrough reads field `name` of object obj of struct type T, following
// embedded pointers (promoted fields).
func (e *Exec) fieldThrough(st *State, stt *types.Struct, T types.Type, obj, name string) (Val, bool) {
	for i := 0; i < stt.NumFields(); i++ {
		f := stt.Field(i)
		if f.Name() == name {
			return e.readAt(st, fieldArrName(T, f.Name()), f.Type(), obj), true
		}
	}
	for i := 0; i < stt.NumFields(); i++ {
		f := stt.Field(i)
		if f.Embedded() {
			if est, ET := structOf(f.Type()); est != nil {
				if _, isPtr := f.Type().Underlying().(*types.Pointer); isPtr {
					inner := e.readAt(st, fieldArrName(T, f.Name()), f.Type(), obj)
					if v, ok := e.fieldThrough(st, est, ET, inner.t(), name); ok {
						return v, true
					}
				}
			}
		}
	}
	return Val{}, false
}

func (e *Exec) evalArgs(env *Env, args []ast.Expr) []Val {
	var vs []Val
	for _, a := range args {
		vs = append(vs, e.evalExpr(env, a))
	}
	return vs
}

func (e *Exec) evalCall(env *Env, x *ast.CallExpr) Val {
	name := ""
	switch f := x.Fun.(type) {
	case *ast.Ident:
		name = f.Name
	case *ast.ArrayType:
		// []byte(x)
		v := e.evalExpr(env, x.Args[0])
		return vBytes(asStr(v), "false")
	default:
		return env.fail("unsupported call %s", exprString(x))
	}
	arg := func(i int) Val { return e.evalExpr(env, x.Args[i]) }
	switch name {
	case "old":
		if env.old == nil {
			return env.fail("old() not available here")
		}
		return e.evalExpr(env.old, x.Args[0])
	case "len":
		v := arg(0)
		switch v.K {
		case KStr, KBytes:
			return vInt(sLen(v.A[0]))
		case KRef:
			if v.T != nil {
				if sl, ok := v.T.Underlying().(*types.Slice); ok {
					_ = sl
					return vInt(e.seqLen(env.st, v.t()))
				}
			}
		}
		return env.fail("len of %v", v.K)
	case "string":
		v := arg(0)
		return vStr(asStr(v))
	case "bytes", "nonnil":
		v := arg(0)
		return vBytes(asStr(v), "false")
	case "isnil":
		v := arg(0)
		if v.K == KBytes {
			return vBool(v.A[1])
		}
		return vBool(sEq(v.t(), "0"))
	case "cat":
		var parts []string
		for i := range x.Args {
			parts = append(parts, asStr(arg(i)))
		}
		return vStr(sConcat(parts...))
	case "sub":
		s, i, j := arg(0), arg(1), arg(2)
		return vStr(sx("str.substr", asStr(s), i.t(), sx("-", j.t(), i.t())))
	case "from":
		s, i := arg(0), arg(1)
		return vStr(sx("str.substr", asStr(s), i.t(), sx("-", sx("str.len", asStr(s)), i.t())))
	case "idx":
		return vInt(sx("str.indexof", asStr(arg(0)), asStr(arg(1)), "0"))
	case "idxfrom":
		return vInt(sx("str.indexof", asStr(arg(0)), asStr(arg(1)), arg(2).t()))
	case "hasPrefix":
		return vBool(sx("str.prefixof", asStr(arg(1)), asStr(arg(0))))
	case "hasSuffix":
		return vBool(sx("str.suffixof", asStr(arg(1)), asStr(arg(0))))
	case "contains":
		return vBool(sx("str.contains", asStr(arg(0)), asStr(arg(1))))
	case "imp":
		return vBool(sImp(e.evalBool(env, x.Args[0]), e.evalBool(env, x.Args[1])))
	case "iff":
		return vBool(sEq(e.evalBool(env, x.Args[0]), e.evalBool(env, x.Args[1])))
	case "ite":
		c := e.evalBool(env, x.Args[0])
		a, b := arg(1), arg(2)
		if a.K == KStr && b.K == KBytes {
			a = vBytes(a.A[0], "false")
		}
		if a.K == KBytes && b.K == KStr {
			b = vBytes(b.A[0], "false")
		}
		if a.K == KInt && b.K == KRef {
			b = vInt(b.t())
		}
		if a.K == KRef && b.K == KInt {
			a = vInt(a.t())
		}
		r := valIte(c, a, b)
		if r.T == nil {
			r.T = b.T
		}
		return r
	case "dec":
		n := arg(0).t()
		return vStr(sIte(sx(">=", n, "0"), sx("str.from_int", n), sConcat(`"-"`, sx("str.from_int", sx("-", n)))))
	case "udec":
		return vStr(sx("str.from_int", arg(0).t()))
	case "atoi":
		return vInt(atoiTerm(asStr(arg(0))))
	case "isint":
		return vBool(isIntTerm(asStr(arg(0))))
	case "isdigits":
		return vBool(sx("str.in_re", asStr(arg(0)), `(re.+ (re.range "0" "9"))`))
	case "chr":
		return vStr(sx("str.from_code", arg(0).t()))
	case "code":
		return vInt(sx("str.to_code", sx("str.at", asStr(arg(0)), arg(1).t())))
	case "errconst":
		// a distinct non-nil error value (package-level error variables)
		return vRef(sx("-", arg(0).t()))
	case "mhas", "mget":
		m := arg(0)
		mt, ok := m.T.Underlying().(*types.Map)
		if !ok {
			return env.fail("%s: not a map", name)
		}
		dn, ds, vn, vsrt, ok := e.mapArrs(mt)
		if !ok {
			return env.fail("%s: unsupported map type %v", name, m.T)
		}
		k := arg(1)
		if name == "mhas" {
			return vBool(sAnd(sNot(sEq(m.t(), "0")), sx("select", e.sel(env.st, dn, ds, m.t()), k.t())))
		}
		raw := sx("select", e.sel(env.st, vn, vsrt, m.t()), k.t())
		switch kindOf(mt.Elem()) {
		case KInt:
			return vInt(raw).withT(mt.Elem())
		case KBool:
			return vBool(raw).withT(mt.Elem())
		case KStr:
			return vStr(raw).withT(mt.Elem())
		}
		return vRef(raw).withT(mt.Elem())
	case "sel":
		m := arg(0)
		if m.K == KSMap {
			return vStr(sx("select", m.t(), arg(1).t()))
		}
		return vInt(sx("select", m.t(), arg(1).t()))
	case "upd":
		m := arg(0)
		if m.K == KSMap {
			return Val{K: KSMap, A: []string{sx("store", m.t(), arg(1).t(), asStr(arg(2)))}}
		}
		return Val{K: KMap, A: []string{sx("store", m.t(), arg(1).t(), arg(2).t())}}
	case "typeof":
		return vInt(sx("typeof", arg(0).t()))
	case "ffmt":
		e.S.DeclareFun("formatFloat", []string{"Int", "Int", "Int", "Int"}, "String")
		return vStr(sx("formatFloat", arg(0).t(), "102", "(- 1)", "64"))
	case "pfloat":
		e.S.DeclareFun("parseFloat", []string{"String"}, "Int")
		return vInt(sx("parseFloat", asStr(arg(0))))
	case "pfloatok":
		e.S.DeclareFun("parseFloatOk", []string{"String"}, "Bool")
		return vBool(sx("parseFloatOk", asStr(arg(0))))
	case "ptime":
		e.S.DeclareFun("timeParse", []string{"String", "String"}, "Int")
		return vInt(sx("timeParse", asStr(arg(0)), asStr(arg(1))))
	case "ptimeok":
		e.S.DeclareFun("timeParseOk", []string{"String", "String"}, "Bool")
		return vBool(sx("timeParseOk", asStr(arg(0)), asStr(arg(1))))
	case "tfmt":
		e.S.DeclareFun("timeFormat", []string{"Int", "String"}, "String")
		return vStr(sx("timeFormat", arg(0).t(), asStr(arg(1))))
	case "join":
		e.S.DeclareFun("join", []string{"(Array Int String)", "Int", "String"}, "String")
		sc, sn := e.seqPair(env, arg(0), "String")
		return vStr(sx("join", sc, sn, asStr(arg(1))))
	case "seqof":
		v := arg(0)
		srt := "Int"
		if v.T != nil {
			if sl, ok := v.T.Underlying().(*types.Slice); ok {
				srt = elemSort(sl.Elem())
			}
		}
		sc, sn := e.seqPair(env, v, srt)
		return vSeqTerm(sc, sn)
	case "snoc":
		// sequence of byte strings extended by one element (spec-level)
		sc, sn := e.seqPair(env, arg(0), "String")
		return vSeqTerm(sx("store", sc, sn, asStr(arg(1))), sx("+", sn, "1"))
	case "istype":
		v := arg(0)
		t := env.resolveType(exprString(x.Args[1]))
		if t == nil {
			return env.fail("unknown type %s", exprString(x.Args[1]))
		}
		return vBool(sEq(sx("typeof", v.t()), sInt(int64(e.P.tagOf(t)))))
	case "fresh":
		v := arg(0)
		if env.old == nil || env.old.st == nil {
			return env.fail("fresh() needs a pre-state")
		}
		return vBool(sAnd(sx(">", v.t(), env.old.st.top), sx("<=", v.t(), env.st.top)))
	case "thisiter":
		// allocated since the innermost enclosing loop head was last passed (a new object per iteration)
		v := arg(0)
		if e.loopTop == "" {
			return env.fail("thisiter() outside a loop")
		}
		return vBool(sAnd(sx(">", v.t(), e.loopTop), sx("<=", v.t(), env.st.top)))
	case "allocated":
		v := arg(0)
		return vBool(sAnd(sx("<=", "0", v.t()), sx("<=", v.t(), env.st.top)))
	case "in_re":
		lit, ok := x.Args[1].(*ast.BasicLit)
		if !ok {
			return env.fail("in_re needs a literal SMT regex")
		}
		re, _ := strconv.Unquote(lit.Value)
		return vBool(sx("str.in_re", asStr(arg(0)), re))
	case "noSOH":
		return vBool(sNot(sx("str.contains", asStr(arg(0)), sStr("\x01"))))
	case "bytes8":
		return vBool(sx("str.in_re", asStr(arg(0)), `(re.* (re.range "\u{0}" "\u{ff}"))`))
	case "seqlen":
		v := arg(0)
		if v.K == KUnit {
			return vInt(v.A[1])
		}
		return vInt(e.seqLen(env.st, v.t()))
	case "nths":
		v := arg(0)
		sc, _ := e.seqPair(env, v, "String")
		return vStr(sx("select", sc, arg(1).t()))
	case "nth":
		v := arg(0)
		var et types.Type = types.Typ[types.Int]
		if v.T != nil {
			if sl, ok := v.T.Underlying().(*types.Slice); ok {
				et = sl.Elem()
			}
		}
		return e.elemPure(sx("select", e.seqTermOf(env, v), arg(1).t()), et)
	case "held", "rheld":
		sel, ok := x.Args[0].(*ast.SelectorExpr)
		if !ok {
			return env.fail("held(x.mu) expects a field selector")
		}
		base := e.evalExpr(env, sel.X)
		_, T := structOf(base.T)
		if T == nil {
			return env.fail("held: %s is not a struct pointer", exprString(sel.X))
		}
		key := fieldArrName(T, sel.Sel.Name) + "@" + base.t()
		if name == "rheld" {
			key = "r:" + key
		}
		return vBool(boolStr(env.st != nil && env.st.held[key]))
	case "unbox_int":
		return vInt(e.sel(env.st, "BOX_Int", "Int", arg(0).t()))
	case "unbox_string":
		return vStr(e.sel(env.st, "BOX_String", "String", arg(0).t()))
	case "unbox_bool":
		return vBool(e.sel(env.st, "BOX_Bool", "Bool", arg(0).t()))
	case "unbox_bytes":
		return vBytes(e.sel(env.st, "BOX_Bytes_s", "String", arg(0).t()), e.sel(env.st, "BOX_Bytes_n", "Bool", arg(0).t()))
	}
	if sf, ok := e.P.CS.Specs[name]; ok {
		return e.applySpec(env, sf, e.evalArgs(env, x.Args))
	}
	if gt, ok := e.P.CS.GhostFields[name]; ok {
		k, t := e.specType("", gt)
		srt := sortsOf(k)[0]
		return Val{K: k, T: t, A: []string{e.sel(env.st, "GF_"+name, srt, arg(0).t())}}
	}
	return env.fail("unknown function %q", name)
}

func boolStr(b bool) string {
	if b {
		return "true"
	}
	return "false"
}

// vSeqTerm wraps a raw sequence term as a spec-level value.
func vSeqTerm(content, ln string) Val { return Val{K: KUnit, A: []string{content, ln}} }

// seqPair: (element array, length) of a spec-level sequence or a slice reference.
func (e *Exec) seqPair(env *Env, v Val, elemSort string) (string, string) {
	if v.K == KUnit && len(v.A) == 2 {
		return v.A[0], v.A[1]
	}
	return e.sel(env.st, "SEQ_"+elemSort, "(Array Int "+elemSort+")", v.t()), e.seqLen(env.st, v.t())
}

func (e *Exec) seqTermOf(env *Env, v Val) string {
	var et types.Type = types.Typ[types.Int]
	if v.T != nil {
		if sl, ok := v.T.Underlying().(*types.Slice); ok {
			et = sl.Elem()
		}
	}
	return e.seqOf(env.st, v.t(), et)
}

func isIntTerm(s string) string {
	return sx("str.in_re", s, `(re.++ (re.opt (re.union (str.to_re "+") (str.to_re "-"))) (re.+ (re.range "0" "9")))`)
}

func atoiTerm(s string) string {
	neg := sx("str.prefixof", `"-"`, s)
	signed := sOr(neg, sx("str.prefixof", `"+"`, s))
	digits := sIte(signed, sx("str.substr", s, "1", sx("-", sx("str.len", s), "1")), s)
	return sIte(neg, sx("-", sx("str.to_int", digits)), sx("str.to_int", digits))
}

// specSort maps a contract-level type to (kind, Go type).
func (e *Exec) specType(pkgPath, src string) (Kind, types.Type) {
	src = strings.TrimSpace(src)
	switch src {
	case "int":
		return KInt, types.Typ[types.Int]
	case "bool":
		return KBool, types.Typ[types.Bool]
	case "string":
		return KStr, types.Typ[types.String]
	case "bytes", "[]byte":
		return KBytes, types.NewSlice(types.Typ[types.Uint8])
	case "ref":
		return KRef, nil
	case "seqstr":
		return KUnit, nil
	case "map":
		return KMap, nil
	case "smap":
		return KSMap, nil
	}
	var pk *types.Package
	if sp := e.P.SPkgs[pkgPath]; sp != nil {
		pk = sp.Pkg
	}
	t := resolveTypeIn(e.P, pk, src)
	if t == nil {
		fatalf("contract: unknown type %q", src)
	}
	return kindOf(t), t
}

// applySpec applies a specification function: defined ones are expanded,
// uninterpreted ones become applications of a declared SMT function that also
// receives the current versions of the heap arrays it reads.
func (e *Exec) applySpec(env *Env, sf *SpecFn, args []Val) Val {
	if len(args) != len(sf.Params) {
		return env.fail("spec %s: %d arguments, want %d", sf.Name, len(args), len(sf.Params))
	}
	var pk *types.Package
	if sp := e.P.SPkgs[sf.PkgPath]; sp != nil {
		pk = sp.Pkg
	}
	if sf.Body != nil {
		key := sf.Name + "("
		for _, a := range args {
			key += strings.Join(flatten(a), ",") + ";"
		}
		key += ")@" + env.st.hv
		for _, ent := range e.specCache2[key] {
			ok := true
			for an, t := range ent.reads.arrs {
				if cur, has := env.st.heap[an]; (has && cur != t) || (!has && t != an) {
					ok = false
					break
				}
			}
			if ok {
				// the reads of the cached expansion also count for enclosing expansions
				for _, tr := range e.readTrace {
					tr.absorb(ent.reads)
				}
				e.lastSpecKey, e.lastSpecName = key, sf.Name
				return ent.val
			}
		}
		e.readTrace = append(e.readTrace, newReadRec())
		n := &Env{e: e, pkg: pk, vars: map[string]Val{}, st: env.st, old: env.old, ctx: "spec " + sf.Name, soft: env.soft}
		var argTerms, argSorts []string
		for i, p := range sf.Params {
			k, t := e.specType(sf.PkgPath, p.Type)
			n.vars[p.Name] = castTo(args[i], k, t)
			argTerms = append(argTerms, n.vars[p.Name].A...)
			argSorts = append(argSorts, sortsOf(k)...)
		}
		r := e.evalExpr(n, sf.Body)
		k, t := e.specType(sf.PkgPath, sf.Res)
		res := castTo(r, k, t)
		reads := e.readTrace[len(e.readTrace)-1]
		e.readTrace = e.readTrace[:len(e.readTrace)-1]
		if sf.Opaque && !(e.fc != nil && contains(e.fc.Reveal, sf.Name)) {
			// hidden definition: an uninterpreted function of the arguments and of
			// every heap cell the body read (so unrelated stores do not change it)
			sorts := append(append([]string{}, argSorts...), reads.sorts...)
			terms := append(append([]string{}, argTerms...), reads.cells...)
			sig := strings.Join(sorts, " ")
			if prev, ok := e.opaqueSig[sf.Name]; ok && prev != sig {
				res = e.freshVal("s_"+sf.Name, t, k)
			} else {
				e.opaqueSig[sf.Name] = sig
				rs := sortsOf(k)
				hidden := Val{K: k, T: t}
				for ci, rsrt := range rs {
					fn := fmt.Sprintf("opq_%s_%d", sf.Name, ci)
					e.S.DeclareFun(fn, sorts, rsrt)
					hidden.A = append(hidden.A, e.S.Define("s_"+sf.Name, rsrt, sx(fn, terms...)))
				}
				if k == KBytes {
					e.S.Assert(sImp(hidden.A[1], sEq(sx("str.len", hidden.A[0]), "0")))
				}
				res = hidden
			}
		} else {
			res = e.nameVal("s_"+sf.Name, res, t)
		}
		for _, tr := range e.readTrace {
			tr.absorb(reads)
		}
		e.specCache2[key] = append(e.specCache2[key], specEntry{reads, res})
		e.lastSpecKey, e.lastSpecName = key, sf.Name
		return res
	}
	// uninterpreted
	var sorts []string
	var terms []string
	if sf.Heap {
		sorts = append(sorts, "Int")
		terms = append(terms, env.st.hv)
	}
	for i, p := range sf.Params {
		k, t := e.specType(sf.PkgPath, p.Type)
		a := castTo(args[i], k, t)
		sorts = append(sorts, sortsOf(k)...)
		terms = append(terms, a.A...)
	}
	for _, r := range sf.Reads {
		if sf.Heap {
			break
		}
		for _, an := range e.P.readArrays(pk, r) {
			srt := e.arrSortOf(an)
			sorts = append(sorts, "(Array Int "+srt+")")
			terms = append(terms, e.arrTerm(env.st, an, srt))
		}
	}
	k, t := e.specType(sf.PkgPath, sf.Res)
	rs := sortsOf(k)
	if len(rs) == 1 {
		e.S.DeclareFun(sf.Name, sorts, rs[0])
		return Val{K: k, T: t, A: []string{sx(sf.Name, terms...)}}
	}
	// bytes result: two functions
	e.S.DeclareFun(sf.Name+"_s", sorts, "String")
	e.S.DeclareFun(sf.Name+"_n", sorts, "Bool")
	return Val{K: k, T: t, A: []string{sx(sf.Name+"_s", terms...), sx(sf.Name+"_n", terms...)}}
}

func heapFingerprint(st *State) string {
	if st == nil {
		return ""
	}
	var b strings.Builder
	b.WriteString(st.hv)
	for _, k := range sortedKeys(st.heap) {
		b.WriteString("|" + k + "=" + st.heap[k])
	}
	return b.String()
}

func (e *Exec) arrSortOf(name string) string {
	if s, ok := e.arrSort[name]; ok {
		return s
	}
	switch {
	case strings.HasSuffix(name, "_n"):
		return "Bool"
	case strings.HasSuffix(name, "_s"):
		return "String"
	}
	return e.P.arrSortByName(name)
}

func castTo(v Val, k Kind, t types.Type) Val {
	if v.K == k {
		if t != nil {
			v.T = t
		}
		return v
	}
	switch {
	case k == KBytes && v.K == KStr:
		return vBytes(v.A[0], "false").withT(t)
	case k == KStr && v.K == KBytes:
		return vStr(v.A[0]).withT(t)
	case k == KRef && v.K == KInt, k == KInt && v.K == KRef:
		return Val{K: k, T: t, A: v.A}
	case k == KBytes && v.K == KRef:
		return vBytes(`""`, "true").withT(t)
	}
	panic(fmt.Sprintf("cannot use a %v as %v", v.K, k))
}

// instLemma adds an instance of a lemma/unfold as an assumption.
func (e *Exec) instLemma(env *Env, c Clause, st *State) {
	lm := e.P.CS.Lemmas[c.Name]
	if lm == nil {
		fatalf("%s:%d: unknown lemma %s", c.File, c.Line, c.Name)
	}
	args := e.evalArgs(env, c.Args)
	if len(args) != len(lm.Params) {
		fatalf("%s:%d: lemma %s: %d arguments, want %d", c.File, c.Line, c.Name, len(args), len(lm.Params))
	}
	var pk *types.Package
	if sp := e.P.SPkgs[lm.PkgPath]; sp != nil {
		pk = sp.Pkg
	}
	n := &Env{e: e, pkg: pk, vars: map[string]Val{}, st: env.st, old: env.old, ctx: "lemma " + lm.Name}
	for i, p := range lm.Params {
		k, t := e.specType(lm.PkgPath, p.Type)
		n.vars[p.Name] = castTo(args[i], k, t)
	}
	body := e.evalBool(n, lm.Ensures)
	if lm.Requires != nil {
		body = sImp(e.evalBool(n, lm.Requires), body)
	}
	e.S.Assert(body)
	e.usedLemmas[lm.Name] = true
}

func isDecimal(s string) bool {
	if s == "" || (len(s) > 1 && s[0] == '0') {
		return false
	}
	for _, c := range s {
		if c < '0' || c > '9' {
			return false
		}
	}
	return true
}
