package main

import (
	"fmt"
	"go/types"
	"sort"
	"strings"

	"golang.org/x/tools/go/ssa"
)

func contractTags(fc *FuncContract) []string {
	seen := map[string]bool{}
	add := func(ts []string) {
		for _, t := range ts {
			seen[t] = true
		}
	}
	for _, c := range fc.Requires {
		add(c.Tags)
	}
	for _, c := range fc.Ensures {
		add(c.Tags)
	}
	add(fc.Safety)
	add(fc.Term)
	for _, l := range fc.Loops {
		for _, c := range l.Invariants {
			add(c.Tags)
		}
		if l.Decreases != nil {
			add(l.Decreases.Tags)
		}
	}
	return sortedKeys(seen)
}

func newExec(p *Prog, name string) *Exec {
	e := &Exec{P: p, S: newScript(), name: name, notes: map[string]bool{}, unsup: map[string]bool{}, arrSort: map[string]string{},
		callSeen: map[string]int{}, closures: map[string]closureInfo{}, usedLemmas: map[string]bool{}, measures: map[int]string{}}
	e.S.DeclareFun("typeof", []string{"Int"}, "Int")
	e.S.Assert(sEq(sx("typeof", "0"), "0"))
	e.S.Declare("A0", "Int")
	e.S.Assert(sx("<=", "0", "A0"))
	// pre-register every field array so that havocAll covers them
	fs := p.fieldSorts()
	for _, n := range sortedKeys(fs) {
		e.arrSort[n] = fs[n]
		e.allArr = append(e.allArr, arrInfo{n, fs[n]})
	}
	for _, n := range []string{"SEQ_Int", "SEQ_String", "SEQ_Bool", "BOX_Int", "BOX_Bool", "BOX_String", "BOX_Bytes_s", "BOX_Bytes_n",
		"CELL_Int", "CELL_Bool", "CELL_String", "CELL_Bytes_s", "CELL_Bytes_n"} {
		s := p.arrSortByName(n)
		e.arrSort[n] = s
		e.allArr = append(e.allArr, arrInfo{n, s})
	}
	return e
}

func (e *Exec) initState() *State {
	st := &State{reach: "true", heap: map[string]string{}, ghost: map[string]Val{}, top: "A0", larr: map[*ssa.Alloc]*LocalArr{}, held: map[string]bool{}}
	for _, g := range sortedKeys(e.P.CS.Ghosts) {
		gd := e.P.CS.Ghosts[g]
		k, t := e.specType("", gd.Type)
		st.ghost[g] = e.freshVal("g_"+g, t, k)
	}
	return st
}

// verifyFunc generates the obligations of one function under contract.
func verifyFunc(p *Prog, fn *ssa.Function, fc *FuncContract, cover bool) (e *Exec) {
	e = newExec(p, dispNameFC(fn, fc))
	e.fn, e.fc, e.cover = fn, fc, cover
	defer func() {
		if r := recover(); r != nil {
			e.unsupported("%s: engine panic: %v", e.name, r)
		}
	}()
	e.computeOrdinals()
	st := e.initState()
	fr := &Frame{fn: fn, vals: map[ssa.Value]Val{}, addrs: map[ssa.Value]*Addr{}, top: true}
	for _, prm := range fn.Params {
		v := e.freshVal("p_"+prm.Name(), prm.Type(), kindOf(prm.Type()))
		e.typeFacts(v, prm.Type(), st)
		fr.vals[prm] = v
		fr.params = append(fr.params, v)
		e.inputs = append(e.inputs, flatten(v)...)
		e.replayInputs = append(e.replayInputs, e.buildInput(v, prm.Type(), 0))
	}
	for _, fv := range fn.FreeVars {
		v := e.freshVal("fv_"+fv.Name(), fv.Type(), KRef)
		e.S.Assert(sAnd(sx("<", "0", v.t()), sx("<=", v.t(), st.top)))
		fr.vals[fv] = v
		fr.fvals = append(fr.fvals, v)
		e.inputs = append(e.inputs, v.t())
	}
	fr.entry = st.clone()
	env := e.funcEnv(fr, st)
	for _, c := range fc.Requires {
		e.S.Assert(e.evalBool(env, c.Expr))
	}
	for _, u := range fc.Unfolds {
		e.instLemma(env, u, st)
	}
	if fc.Trusted {
		return e
	}
	e.runFrame(fr, st)
	return e
}

func dispNameFC(fn *ssa.Function, fc *FuncContract) string {
	if fc != nil && fc.IsClosure {
		return shortPkg(fc.PkgPath) + "." + fc.Key
	}
	return dispName(fn)
}

func flatten(v Val) []string {
	out := append([]string{}, v.A...)
	for _, f := range v.F {
		out = append(out, flatten(f)...)
	}
	return out
}

// verifyLemma produces the obligation for a non-trusted lemma.
func verifyLemma(p *Prog, lm *Lemma) *Exec {
	e := newExec(p, "lemma")
	e.fc = &FuncContract{PkgPath: lm.PkgPath}
	st := e.initState()
	var pk *types.Package
	if sp := p.SPkgs[lm.PkgPath]; sp != nil {
		pk = sp.Pkg
	}
	env := &Env{e: e, pkg: pk, vars: map[string]Val{}, st: st, ctx: "lemma " + lm.Name}
	for _, prm := range lm.Params {
		k, t := e.specType(lm.PkgPath, prm.Type)
		v := e.freshVal("p_"+prm.Name, t, k)
		env.vars[prm.Name] = v
		e.inputs = append(e.inputs, flatten(v)...)
	}
	if lm.Requires != nil {
		e.S.Assert(e.evalBool(env, lm.Requires))
	}
	for _, h := range lm.Hints {
		e.instLemma(env, h, st)
	}
	g := e.evalBool(env, lm.Ensures)
	o := &Obligation{Name: "lemma:" + lm.Name, Props: lm.Tags, Kind: "lemma", Func: "lemma " + lm.Name, Desc: exprString(lm.Ensures),
		N: e.S.Len(), Hyp: nil, Goal: g, Script: e.S, Inputs: e.inputs, Ex: e}
	e.obls = append(e.obls, o)
	return e
}

type RunResult struct {
	Execs       []*Exec
	Obls        []*Obligation
	Functions   []string
	Unbound     []string
	Notes       []string
	Unsupported []string
	Trusted     []string
}

// generate verifies every function under contract (optionally restricted to
// those relevant for a property) and returns all obligations.
func generate(p *Prog, prop string, cover bool) *RunResult {
	rr := &RunResult{}
	keys := sortedKeys(p.CS.Funcs)
	for _, k := range keys {
		fc := p.CS.Funcs[k]
		var fn *ssa.Function
		if fc.IsClosure {
			parent := p.FnByKey[fc.PkgPath+"::"+fc.Parent]
			if parent != nil {
				fn = p.bindClosure(parent, fc)
			}
		} else {
			fn = p.FnByKey[k]
		}
		if fn == nil {
			rr.Unbound = append(rr.Unbound, k)
			continue
		}
		if prop != "" && !relevant(p, fc, prop) {
			continue
		}
		if fc.Trusted {
			rr.Trusted = append(rr.Trusted, shortPkg(fc.PkgPath)+"."+fc.Key)
			continue
		}
		e := verifyFunc(p, fn, fc, cover)
		rr.Execs = append(rr.Execs, e)
		rr.Functions = append(rr.Functions, e.name)
		all := contractTags(fc)
		for _, o := range e.obls {
			if len(o.Props) == 0 {
				o.Props = all
			}
			rr.Obls = append(rr.Obls, o)
		}
		for n := range e.notes {
			rr.Notes = append(rr.Notes, n)
		}
		for n := range e.unsup {
			rr.Unsupported = append(rr.Unsupported, e.name+": "+n)
		}
	}
	for _, n := range sortedKeys(p.CS.Lemmas) {
		lm := p.CS.Lemmas[n]
		if lm.Trusted {
			continue
		}
		if prop != "" && !contains(lm.Tags, prop) {
			continue
		}
		e := verifyLemma(p, lm)
		rr.Execs = append(rr.Execs, e)
		rr.Obls = append(rr.Obls, e.obls...)
	}
	sort.Strings(rr.Notes)
	sort.Strings(rr.Unsupported)
	return rr
}

func contains(xs []string, x string) bool {
	for _, y := range xs {
		if y == x {
			return true
		}
	}
	return false
}

// relevant: the contract has a clause tagged with the property, or calls
// (directly) a function whose requires are tagged with it.
func relevant(p *Prog, fc *FuncContract, prop string) bool {
	if contains(contractTags(fc), prop) {
		return true
	}
	return false
}

func fmtObl(o *Obligation) string {
	return fmt.Sprintf("%-70s %-8s %-8s %6.2fs %s", o.Name, strings.Join(o.Props, ","), o.Res.Status, o.Res.TimeS, o.Res.Backend)
}
