package main

import (
	"go/token"
	"fmt"
	"go/ast"
	"go/types"
	"sort"
	"strings"

	"golang.org/x/tools/go/ssa"
)

// groupTags widens a tag list by the property group of the package, if it touches it.
func groupTags(p *Prog, pkgPath string, tags []string) []string {
	if p == nil {
		return tags
	}
	g := p.CS.Groups[pkgPath]
	if len(g) == 0 {
		return tags
	}
	hit := false
	for _, t := range tags {
		if contains(g, t) {
			hit = true
		}
	}
	if !hit {
		return tags
	}
	out := append([]string{}, tags...)
	for _, t := range g {
		if !contains(out, t) {
			out = append(out, t)
		}
	}
	return out
}

func contractTags(fc *FuncContract) []string {
	seen := map[string]bool{}
	add := func(ts []string) {
		for _, t := range ts {
			seen[t] = true
		}
	}
	for _, c := range fc.Requires {
		add(c.Tags)
	}
	for _, c := range fc.Ensures {
		add(c.Tags)
	}
	add(fc.Safety)
	add(fc.Term)
	add(fc.Owns)
	add(fc.ChanTags)
	for _, cs := range fc.Calls {
		for _, a := range cs.Asserts {
			add(a.Tags)
		}
	}
	for _, l := range fc.Loops {
		for _, c := range l.Invariants {
			add(c.Tags)
		}
		if l.Decreases != nil {
			add(l.Decreases.Tags)
		}
	}
	return sortedKeys(seen)
}

func newExec(p *Prog, name string) *Exec {
	e := &Exec{P: p, S: newScript(), name: name, notes: map[string]bool{}, unsup: map[string]bool{}, arrSort: map[string]string{},
		callSeen: map[string]int{}, closures: map[string]closureInfo{}, usedLemmas: map[string]bool{}, measures: map[int]string{}, prov: map[string]string{}, specCache: map[string]Val{}, siteVars: map[string]Val{}, forallVars: map[string]Val{}, fvDeref: map[*ssa.FreeVar]Val{}, unboundSites: map[string]bool{}, opaqueSig: map[string]string{}, specCache2: map[string][]specEntry{}, ldCache: map[string]string{}, aliasOf: map[string][]aliasEdge{}}
	e.S.DeclareFun("typeof", []string{"Int"}, "Int")
	e.S.Assert(sEq(sx("typeof", "0"), "0"))
	e.S.Declare("A0", "Int")
	e.S.Assert(sx("<=", "0", "A0"))
	e.S.Declare("LEN", "(Array Int Int)")
	e.S.Assert(sEq(sx("select", "LEN", "0"), "0"))
	for _, srt := range []string{"Int", "String", "Bool"} {
		// the nil slice has no elements (normal form: the constant array)
		e.S.Declare("SEQ_"+srt, "(Array Int (Array Int "+srt+"))")
		e.S.Assert(sEq(sx("select", "SEQ_"+srt, "0"), constArr(srt)))
	}
	// pre-register every field array so that havocAll covers them
	fs := p.fieldSorts()
	for _, n := range sortedKeys(fs) {
		e.arrSort[n] = fs[n]
		e.allArr = append(e.allArr, arrInfo{n, fs[n]})
	}
	for _, gn := range sortedKeys(p.CS.GhostFields) {
		k, _ := e.specType("", p.CS.GhostFields[gn])
		e.arrSort["GF_"+gn] = sortsOf(k)[0]
		e.allArr = append(e.allArr, arrInfo{"GF_" + gn, sortsOf(k)[0]})
	}
	for _, n := range []string{"SEQ_Int", "SEQ_String", "SEQ_Bool", "LEN", "BOX_Int", "BOX_Bool", "BOX_String", "BOX_Bytes_s", "BOX_Bytes_n",
		"CELL_Int", "CELL_Bool", "CELL_String", "CELL_Bytes_s", "CELL_Bytes_n",
		"MAPD_Int", "MAPD_String", "MAPV_Int_Int", "MAPV_Int_Bool", "MAPV_Int_String", "MAPV_String_Int", "MAPV_String_Bool", "MAPV_String_String"} {
		s := p.arrSortByName(n)
		e.arrSort[n] = s
		e.allArr = append(e.allArr, arrInfo{n, s})
	}
	return e
}

func (e *Exec) initState() *State {
	e.S.Declare("HV0", "Int")
	st := &State{hv: "HV0", reach: "true", heap: map[string]string{}, ghost: map[string]Val{}, top: "A0", larr: map[*ssa.Alloc]*LocalArr{}, held: map[string]bool{}, frozen: map[string]string{}, fieldIdent: map[string]string{}}
	for _, g := range sortedKeys(e.P.CS.Ghosts) {
		gd := e.P.CS.Ghosts[g]
		k, t := e.specType("", gd.Type)
		st.ghost[g] = e.freshVal("g_"+g, t, k)
		if g == "slack" {
			// scheduling slack is a non-negative constant of the environment
			e.S.Assert(sx(">=", st.ghost[g].t(), "0"))
		}
	}
	return st
}

// verifyFunc generates the obligations of one function under contract.
func verifyFunc(p *Prog, fn *ssa.Function, fc *FuncContract, cover bool) (e *Exec) {
	e = newExec(p, dispNameFC(fn, fc))
	e.fn, e.fc, e.cover = fn, fc, cover
	verifying = true
	defer func() {
		verifying = false
		if r := recover(); r != nil {
			// the contract no longer fits the function (a name it mentions is gone, a
			// value changed its type, ...): nothing about this function is decided
			msg := fmt.Sprint(r)
			if ab, ok := r.(engineAbort); ok {
				msg = ab.msg
			}
			st := &State{reach: "true"}
			o := e.obligeNoAssume(st, "contract:binding", "binding", contractTags(fc), "false", "the contract of this function can no longer be interpreted against its code: "+msg, fn.Pos())
			o.Pos = posOf(p, fn.Pos())
		}
	}()
	e.computeOrdinals()
	st := e.initState()
	fr := &Frame{fn: fn, vals: map[ssa.Value]Val{}, addrs: map[ssa.Value]*Addr{}, top: true}
	for _, prm := range fn.Params {
		v := e.freshVal("p_"+prm.Name(), prm.Type(), kindOf(prm.Type()))
		e.typeFacts(v, prm.Type(), st)
		fr.vals[prm] = v
		fr.params = append(fr.params, v)
		e.inputs = append(e.inputs, flatten(v)...)
		e.replayInputs = append(e.replayInputs, e.buildInput(v, prm.Type(), 0))
	}
	for _, fv := range fn.FreeVars {
		v := e.freshVal("fv_"+fv.Name(), fv.Type(), KRef)
		e.S.Assert(sAnd(sx("<", "0", v.t()), sx("<=", v.t(), st.top)))
		fr.vals[fv] = v
		fr.fvals = append(fr.fvals, v)
		e.inputs = append(e.inputs, v.t())
	}
	for _, q := range fc.Forall {
		k, t := e.specType(fc.PkgPath, q.Type)
		e.forallVars[q.Name] = e.freshVal("all_"+q.Name, t, k)
	}
	e.predeclareSiteWitnesses(st)
	// every `call F#k:` section must name a call (or send) site that exists in the code
	for _, sec := range fc.Calls {
		found := false
		for _, cs := range e.callOrd {
			if cs.name == sec.Callee && cs.k == sec.N {
				found = true
				break
			}
		}
		if !found {
			e.unboundSites[fmt.Sprintf("%s#%d", sec.Callee, sec.N)] = true
		}
	}
	for _, site := range sortedKeys(e.unboundSites) {
		o := e.obligeNoAssume(st, "site:"+site+":unbound", "pre", contractTags(fc), "false", "the contract refers to call site "+site+", which no longer exists in the function", fn.Pos())
		o.Pos = posOf(p, fn.Pos())
	}
	fr.entry = st.clone()
	env := e.funcEnv(fr, st)
	if fc.Recv != nil && fc.Recv.Name == "self" && len(fr.params) > 0 && fr.params[0].K == KRef {
		// verification against an interface method contract: invoked through a non-nil interface
		e.S.Assert(sNot(sEq(fr.params[0].t(), "0")))
	}
	for _, c := range fc.Requires {
		e.S.Assert(e.evalBool(env, c.Expr))
	}
	// locks the caller is required to hold
	for _, hsrc := range fc.Holds {
		if ex, err := parseExprSafe(strings.TrimSpace(hsrc)); err == nil {
			if sel, ok := ex.(*ast.SelectorExpr); ok {
				base := e.evalExpr(env, sel.X)
				if _, T := structOf(base.T); T != nil {
					key := fieldArrName(T, sel.Sel.Name) + "@" + base.t()
					st.held[key] = true
					st.held["r:"+key] = true
				}
			}
		}
	}
	for _, u := range fc.Unfolds {
		e.instLemma(env, u, st)
	}
	if fc.Trusted {
		return e
	}
	e.runFrame(fr, st)
	return e
}

func dispNameFC(fn *ssa.Function, fc *FuncContract) string {
	if fc != nil && fc.IsClosure {
		return shortPkg(fc.PkgPath) + "." + fc.Key
	}
	return dispName(fn)
}

func flatten(v Val) []string {
	out := append([]string{}, v.A...)
	for _, f := range v.F {
		out = append(out, flatten(f)...)
	}
	return out
}

// verifyLemma produces the obligation for a non-trusted lemma.
func verifyLemma(p *Prog, lm *Lemma) *Exec {
	e := newExec(p, "lemma")
	e.fc = &FuncContract{PkgPath: lm.PkgPath, Reveal: lm.Reveal}
	st := e.initState()
	var pk *types.Package
	if sp := p.SPkgs[lm.PkgPath]; sp != nil {
		pk = sp.Pkg
	}
	env := &Env{e: e, pkg: pk, vars: map[string]Val{}, st: st, ctx: "lemma " + lm.Name}
	for _, prm := range lm.Params {
		k, t := e.specType(lm.PkgPath, prm.Type)
		v := e.freshVal("p_"+prm.Name, t, k)
		env.vars[prm.Name] = v
		e.inputs = append(e.inputs, flatten(v)...)
	}
	if lm.Requires != nil {
		e.S.Assert(e.evalBool(env, lm.Requires))
	}
	for _, h := range lm.Hints {
		e.instLemma(env, h, st)
	}
	g := e.evalBool(env, lm.Ensures)
	o := &Obligation{Name: "lemma:" + lm.Name, Props: lm.Tags, Kind: "lemma", Func: "lemma " + lm.Name, Desc: exprString(lm.Ensures),
		N: e.S.Len(), Hyp: nil, Goal: g, Script: e.S, Inputs: e.inputs, Ex: e}
	e.obls = append(e.obls, o)
	return e
}

type RunResult struct {
	Execs       []*Exec
	Obls        []*Obligation
	Functions   []string
	Unbound     []string
	Notes       []string
	Unsupported []string
	Trusted     []string
}

// generate verifies every function under contract (optionally restricted to
// those relevant for a property) and returns all obligations.
func generate(p *Prog, prop string, cover bool) *RunResult {
	rr := &RunResult{}
	keys := sortedKeys(p.CS.Funcs)
	for _, k := range keys {
		fc := p.CS.Funcs[k]
		var fn *ssa.Function
		if fc.IsClosure {
			parent := p.FnByKey[fc.PkgPath+"::"+fc.Parent]
			if parent != nil {
				fn = p.bindClosure(parent, fc)
			}
		} else {
			fn = p.FnByKey[k]
		}
		if fn == nil {
			rr.Unbound = append(rr.Unbound, k)
			continue
		}
		dep := false
		if prop != "" && !relevant(p, fc, prop) && !touchesProtected(p, fn, prop) && !callsTaggedPre(p, fn, prop) {
			if !p.depClosure(prop)[fn] {
				continue
			}
			// not tagged for the property, but a function the property's proofs call:
			// its contract is an assumption of those proofs, so it is verified with them
			dep = true
		}
		if fc.Trusted {
			rr.Trusted = append(rr.Trusted, shortPkg(fc.PkgPath)+"."+fc.Key)
			continue
		}
		for _, a := range fc.Assumes {
			rr.Trusted = append(rr.Trusted, shortPkg(fc.PkgPath)+"."+fc.Key+": assumed clause `"+a.Text+"`")
		}
		e := verifyFunc(p, fn, fc, cover)
		rr.Execs = append(rr.Execs, e)
		rr.Functions = append(rr.Functions, e.name)
		all := contractTags(fc)
		if dep {
			rr.Functions[len(rr.Functions)-1] = e.name + " (dependency of " + prop + ")"
		}
		for _, o := range e.obls {
			if len(o.Props) == 0 {
				o.Props = all
			}
			if o.Kind != "discipline" && o.Kind != "cover" {
				o.Props = groupTags(p, fc.PkgPath, o.Props)
			}
			if dep && !contains(o.Props, prop) && o.Kind != "discipline" && o.Kind != "cover" {
				o.Props = append(append([]string{}, o.Props...), prop)
				o.Dependency = true
			}
			rr.Obls = append(rr.Obls, o)
		}
		for n := range e.notes {
			rr.Notes = append(rr.Notes, n)
		}
		for n := range e.unsup {
			rr.Unsupported = append(rr.Unsupported, e.name+": "+n)
		}
	}
	// discipline sweep: functions without a contract in packages that declare
	// protected fields for this property are scanned for their accesses
	if prop != "" {
		pkgs := map[string]bool{}
		for _, fd := range p.CS.Fields {
			if contains(fd.Tags, prop) {
				pkgs[fd.PkgPath] = true
			}
		}
		done := map[*ssa.Function]bool{}
		for _, k := range keys {
			if fn := p.FnByKey[k]; fn != nil {
				done[fn] = true
			}
			if fc := p.CS.Funcs[k]; fc != nil && fc.IsClosure {
				if parent := p.FnByKey[fc.PkgPath+"::"+fc.Parent]; parent != nil {
					if fn := p.bindClosure(parent, fc); fn != nil {
						done[fn] = true
					}
				}
			}
		}
		for _, k := range sortedKeys(p.FnByKey) {
			fn := p.FnByKey[k]
			pk := k[:strings.Index(k, "::")]
			if !pkgs[pk] || done[fn] || len(fn.Blocks) == 0 || fn.Name() == "init" || strings.HasPrefix(fn.Name(), "init#") {
				continue
			}
			if tags, un := p.CS.Unscoped[k]; un && contains(tags, prop) {
				rr.Notes = append(rr.Notes, "unscoped: "+k+" is outside the intended concurrent use; its accesses are not checked")
				continue
			}
			if !touchesProtected(p, fn, prop) {
				continue
			}
			fc := &FuncContract{PkgPath: pk, Key: fnKey(fn), Roles: []string{"any"}}
			e := verifyFunc(p, fn, fc, false)
			rr.Execs = append(rr.Execs, e)
			rr.Functions = append(rr.Functions, e.name+" (discipline sweep)")
			for _, o := range e.obls {
				if o.Kind == "discipline" {
					rr.Obls = append(rr.Obls, o)
				}
			}
		}
	}
	// refinement: every module implementation of an interface with a (non-assumed)
	// contract is verified against the interface's method contracts
	for _, ik := range sortedKeys(p.CS.Ifaces) {
		ic := p.CS.Ifaces[ik]
		if ic.Assumed {
			continue
		}
		sp := p.SPkgs[ic.PkgPath]
		if sp == nil {
			continue
		}
		obj := sp.Pkg.Scope().Lookup(ic.Name)
		if obj == nil {
			rr.Unbound = append(rr.Unbound, ik)
			continue
		}
		it, ok := obj.Type().Underlying().(*types.Interface)
		if !ok {
			continue
		}
		for _, impl := range p.implementers(it) {
			if len(ic.Impls) > 0 {
				nm := types.TypeString(impl, func(*types.Package) string { return "" })
				if !contains(ic.Impls, nm) && !contains(ic.Impls, strings.TrimPrefix(nm, "*")) {
					continue
				}
			}
			for _, mn := range sortedKeys(ic.Methods) {
				mc := ic.Methods[mn]
				depRef := false
				if prop != "" && !contains(contractTags(mc), prop) {
					p.depClosure(prop)
					if !p.depIface[prop][ik+"."+mn] {
						continue
					}
					depRef = true // the property's proofs call this interface method: its implementations are verified with them
				}
				sel := p.SSA.MethodSets.MethodSet(impl).Lookup(sp.Pkg, mn)
				if sel == nil {
					sel = p.SSA.MethodSets.MethodSet(impl).Lookup(nil, mn)
				}
				if sel == nil {
					continue
				}
				fn := p.SSA.MethodValue(sel)
				if fn == nil || fn.Synthetic != "" || !inModule(fn) {
					continue
				}
				dc := *mc
				dc.Trusted = false
				dc.Recv = &Param{Name: "self", Type: types.TypeString(impl, func(*types.Package) string { return "" })}
				dc.PkgPath = fn.Pkg.Pkg.Path()
				var e *Exec
				if own := p.contractFor(fn); own != nil {
					e = guarded(p, fn, &dc, func() *Exec { return verifyRefinement(p, fn, own, &dc) })
				} else {
					e = verifyFunc(p, fn, &dc, cover)
				}
				e.name = dispName(fn) + "~" + ic.Name
				for _, o := range e.obls {
					o.Name = e.name + o.Name[strings.Index(o.Name, "#"):]
					o.Func = e.name
					if i := strings.Index(o.CoverGroup, "#premise:"); i >= 0 {
						// a clause of an interface method that speaks about one implementation
						// (imp(istype(self, *T), ...)) needs a witness in some implementation, not in each
						o.CoverGroup = ik + "." + mn + o.CoverGroup[i:]
					}
				}
				rr.Execs = append(rr.Execs, e)
				rr.Functions = append(rr.Functions, e.name)
				all := contractTags(&dc)
				if depRef {
					rr.Functions[len(rr.Functions)-1] = e.name + " (dependency of " + prop + ")"
				}
				for _, o := range e.obls {
					if len(o.Props) == 0 {
						o.Props = all
					}
					if depRef && !contains(o.Props, prop) && o.Kind != "discipline" && o.Kind != "cover" {
						o.Props = append(append([]string{}, o.Props...), prop)
						o.Dependency = true
					}
					rr.Obls = append(rr.Obls, o)
				}
				for n := range e.notes {
					rr.Notes = append(rr.Notes, n)
				}
				for n := range e.unsup {
					rr.Unsupported = append(rr.Unsupported, e.name+": "+n)
				}
			}
		}
	}
	for _, n := range sortedKeys(p.CS.Lemmas) {
		lm := p.CS.Lemmas[n]
		if lm.Trusted {
			continue
		}
		if prop != "" && !contains(lm.Tags, prop) {
			continue
		}
		e := guardedLemma(p, lm)
		rr.Execs = append(rr.Execs, e)
		rr.Obls = append(rr.Obls, e.obls...)
	}
	sort.Strings(rr.Notes)
	sort.Strings(rr.Unsupported)
	if prop != "" {
		goCaptureSweep(p, prop, rr)
		orderedIterationSweep(p, prop, rr)
		lockCopySweep(p, prop, rr)
		coveredCallersSweep(p, prop, rr)
	}
	for _, n := range sortedKeys(p.CS.Externs) {
		if xf := p.CS.Externs[n]; xf.Used {
			rr.Trusted = append(rr.Trusted, "extern "+n+": assumed contract of a function outside the module")
		}
	}
	return rr
}

func contains(xs []string, x string) bool {
	for _, y := range xs {
		if y == x {
			return true
		}
	}
	return false
}

// relevant: the contract has a clause tagged with the property, or calls
// (directly) a function whose requires are tagged with it.
func relevant(p *Prog, fc *FuncContract, prop string) bool {
	return contains(groupTags(p, fc.PkgPath, contractTags(fc)), prop)
}

func fmtObl(o *Obligation) string {
	return fmt.Sprintf("%-70s %-8s %-8s %6.2fs %s", o.Name, strings.Join(o.Props, ","), o.Res.Status, o.Res.TimeS, o.Res.Backend)
}

// verifyRefinement: the implementation's own contract implies the interface
// method's contract (requires weakened, ensures strengthened).
func verifyRefinement(p *Prog, fn *ssa.Function, own, ifc *FuncContract) *Exec {
	e := newExec(p, dispName(fn))
	e.fn, e.fc = fn, ifc
	st := e.initState()
	fr := &Frame{fn: fn, vals: map[ssa.Value]Val{}, addrs: map[ssa.Value]*Addr{}, top: true}
	for _, prm := range fn.Params {
		v := e.freshVal("p_"+prm.Name(), prm.Type(), kindOf(prm.Type()))
		e.typeFacts(v, prm.Type(), st)
		fr.vals[prm] = v
		fr.params = append(fr.params, v)
	}
	fr.entry = st.clone()
	// interface preconditions hold; a method is never invoked through a nil interface
	if len(fr.params) > 0 && fr.params[0].K == KRef {
		e.S.Assert(sNot(sEq(fr.params[0].t(), "0")))
	}
	ienv := e.funcEnv(fr, st)
	for _, c := range ifc.Requires {
		e.S.Assert(e.evalBool(ienv, c.Expr))
	}
	// the implementation's preconditions must follow
	oenv := &Env{e: e, pkg: ienv.pkg, vars: map[string]Val{}, st: st, ctx: e.name + " (own contract)"}
	e.bindParams(oenv, own, fn, fr.params)
	for i, c := range own.Requires {
		e.oblige(st, fmt.Sprintf("refines:pre:%d", i+1), "pre", contractTags(ifc), e.evalBool(oenv, c.Expr), c.Text, fn.Pos())
	}
	// effect of the implementation according to its own contract
	pre := st.clone()
	oenv.st = pre
	if !own.Pure {
		for _, m := range own.Modifies {
			e.havocClause(oenv, st, own, m)
		}
	}
	e.bumpTop(st)
	var results []Val
	res := fn.Signature.Results()
	for i := 0; i < res.Len(); i++ {
		v := e.freshVal(fmt.Sprintf("r_%d", i), res.At(i).Type(), kindOf(res.At(i).Type()))
		e.typeFacts(v, res.At(i).Type(), st)
		results = append(results, v)
	}
	qenv := &Env{e: e, pkg: ienv.pkg, vars: map[string]Val{}, st: st, old: oenv, ctx: e.name + " (own contract)"}
	for n, v := range oenv.vars {
		qenv.vars[n] = v
	}
	e.bindResults(qenv, own, results)
	e.evalWitnesses(qenv, own)
	for _, c := range own.Ensures {
		e.S.Assert(e.evalBool(qenv, c.Expr))
	}
	// interface postconditions
	penv := e.funcEnv(fr, st)
	penv.old = &Env{e: e, pkg: ienv.pkg, vars: ienv.vars, st: pre, ctx: e.name}
	e.bindResults(penv, ifc, results)
	e.evalWitnesses(penv, ifc)
	for _, lm := range ifc.Lemmas {
		e.instLemma(penv, lm, st)
	}
	for i, c := range ifc.Ensures {
		lbl := c.Label
		if lbl == "" {
			lbl = fmt.Sprintf("%d", i+1)
		}
		e.obligeNoAssume(st, "refines:post:"+lbl, "post", c.Tags, e.evalBool(penv, c.Expr), c.Text, fn.Pos())
	}
	return e
}

// touchesProtected: does fn (syntactically) access a field with a protection declared for prop?
func touchesProtected(p *Prog, fn *ssa.Function, prop string) bool {
	for _, b := range fn.Blocks {
		for _, in := range b.Instrs {
			fa, ok := in.(*ssa.FieldAddr)
			if !ok {
				continue
			}
			stt, T := structOf(fa.X.Type())
			if stt == nil {
				continue
			}
			if fd := p.fieldDecl(T, stt.Field(fa.Field).Name()); fd != nil && contains(fd.Tags, prop) {
				return true
			}
		}
	}
	return false
}

// predeclareSiteWitnesses: a call-site witness of the form ret / retN / argN is
// an arbitrary value on paths that never reach the call.
func (e *Exec) predeclareSiteWitnesses(st *State) {
	for _, sec := range e.fc.Calls {
		for _, w := range sec.Witness {
			id, ok := w.Expr.(*ast.Ident)
			if !ok {
				continue
			}
			if id.Name == "reached" {
				e.siteVars[w.Name] = vBool("false")
				continue
			}
			var call ssa.CallInstruction
			for in, cs := range e.callOrd {
				if cs.name == sec.Callee && cs.k == sec.N {
					call, _ = in.(ssa.CallInstruction)
				}
			}
			if call == nil {
				// the call site named by the contract no longer exists in the code
				e.siteVars[w.Name] = vInt(e.S.Fresh("w_"+w.Name+"_unbound", "Int"))
				e.unboundSites[fmt.Sprintf("%s#%d", sec.Callee, sec.N)] = true
				continue
			}
			if g, isGhost := st.ghost[id.Name]; isGhost {
				e.siteVars[w.Name] = e.freshVal("w_"+w.Name+"_unreached", g.T, g.K)
				continue
			}
			var t types.Type
			res := call.Common().Signature().Results()
			switch {
			case id.Name == "ret" && res.Len() == 1:
				t = res.At(0).Type()
			case strings.HasPrefix(id.Name, "ret") && len(id.Name) > 3:
				var n int
				fmt.Sscanf(id.Name[3:], "%d", &n)
				if n < res.Len() {
					t = res.At(n).Type()
				}
			case strings.HasPrefix(id.Name, "arg"):
				var n int
				fmt.Sscanf(id.Name[3:], "%d", &n)
				if n < len(call.Common().Args) {
					t = call.Common().Args[n].Type()
				}
			}
			if t == nil {
				continue
			}
			v := e.freshVal("w_"+w.Name+"_unreached", t, kindOf(t))
			e.typeFacts(v, t, st)
			e.siteVars[w.Name] = v
		}
	}
}

// callsTaggedPre: fn calls (statically) a function whose contract has a
// precondition tagged with prop — the obligation arises at fn's call site.
func callsTaggedPre(p *Prog, fn *ssa.Function, prop string) bool {
	for _, b := range fn.Blocks {
		for _, in := range b.Instrs {
			ci, ok := in.(ssa.CallInstruction)
			if !ok {
				continue
			}
			callee := ci.Common().StaticCallee()
			if callee == nil || !inModule(callee) {
				continue
			}
			if fc := p.contractFor(callee); fc != nil {
				for _, r := range fc.Requires {
					if contains(r.Tags, prop) {
						return true
					}
				}
			}
		}
	}
	return false
}

// depClosure: the functions under contract that the functions relevant for a property
// call, directly or through uncontracted helpers and interface methods implemented in
// the module, transitively. Their contracts are what the property's proofs assume.
func (p *Prog) depClosure(prop string) map[*ssa.Function]bool {
	if p.depCache == nil {
		p.depCache = map[string]map[*ssa.Function]bool{}
	}
	if c, ok := p.depCache[prop]; ok {
		return c
	}
	res := map[*ssa.Function]bool{}
	p.depCache[prop] = res
	if p.depIface == nil {
		p.depIface = map[string]map[string]bool{}
	}
	p.depIface[prop] = map[string]bool{}
	var work []*ssa.Function
	for _, k := range sortedKeys(p.CS.Funcs) {
		fc := p.CS.Funcs[k]
		var fn *ssa.Function
		if fc.IsClosure {
			if parent := p.FnByKey[fc.PkgPath+"::"+fc.Parent]; parent != nil {
				fn = p.bindClosure(parent, fc)
			}
		} else {
			fn = p.FnByKey[k]
		}
		if fn != nil && (relevant(p, fc, prop) || touchesProtected(p, fn, prop) || callsTaggedPre(p, fn, prop)) {
			work = append(work, fn)
		}
	}
	seenBody := map[*ssa.Function]bool{}
	var scan func(fn *ssa.Function, depth int)
	add := func(callee *ssa.Function) {
		if callee == nil || !inModule(callee) || res[callee] {
			return
		}
		if fc := p.contractFor(callee); fc != nil && !fc.Trusted && !fc.Inline {
			res[callee] = true
			work = append(work, callee)
		}
	}
	scan = func(fn *ssa.Function, depth int) {
		if seenBody[fn] || depth > 4 {
			return
		}
		seenBody[fn] = true
		for _, b := range fn.Blocks {
			for _, in := range b.Instrs {
				ci, ok := in.(ssa.CallInstruction)
				if !ok {
					continue
				}
				c := ci.Common()
				if c.IsInvoke() {
					it, ok := c.Value.Type().Underlying().(*types.Interface)
					if !ok {
						continue
					}
					if n, isNamed := types.Unalias(c.Value.Type()).(*types.Named); isNamed && n.Obj().Pkg() != nil {
						// an interface with a (non-assumed) contract in the module: its implementations
						// are verified by refinement; remember that this method is needed
						p.depIface[prop][n.Obj().Pkg().Path()+"::"+n.Obj().Name()+"."+c.Method.Name()] = true
					}
					for _, impl := range p.implementers(it) {
						sel := p.SSA.MethodSets.MethodSet(impl).Lookup(c.Method.Pkg(), c.Method.Name())
						if sel == nil {
							sel = p.SSA.MethodSets.MethodSet(impl).Lookup(nil, c.Method.Name())
						}
						// a method with a value receiver reached through *T is a synthetic wrapper: take T's own method
						if pt, isPtr := impl.(*types.Pointer); isPtr {
							if s2 := p.SSA.MethodSets.MethodSet(pt.Elem()).Lookup(c.Method.Pkg(), c.Method.Name()); s2 != nil {
								sel = s2
							} else if s2 := p.SSA.MethodSets.MethodSet(pt.Elem()).Lookup(nil, c.Method.Name()); s2 != nil {
								sel = s2
							}
						}
						if sel != nil {
							if m := p.SSA.MethodValue(sel); m != nil && m.Synthetic != "" && len(m.Blocks) > 0 {
								// a method promoted from an embedded field (generated message types embed
								// *fix.Message): the wrapper's body calls the real method
								scan(m, depth+1)
							} else if m != nil && m.Synthetic == "" && inModule(m) {
								if p.contractFor(m) != nil {
									add(m)
								} else if len(m.Blocks) > 0 {
									scan(m, depth+1) // verified by body against the interface contract
								}
							}
						}
					}
					continue
				}
				callee := c.StaticCallee()
				if callee == nil || !inModule(callee) {
					continue
				}
				if fc := p.contractFor(callee); fc != nil && !fc.Inline {
					add(callee)
				} else if len(callee.Blocks) > 0 {
					scan(callee, depth+1) // uncontracted helper: looked through (it is inlined)
				}
			}
		}
	}
	for len(work) > 0 {
		fn := work[0]
		work = work[1:]
		scan(fn, 0)
	}
	return res
}

// guarded runs a verification step; an abort inside it (a contract that can no longer
// be interpreted against the code) becomes the failed obligation F#contract:binding.
func guarded(p *Prog, fn *ssa.Function, fc *FuncContract, run func() *Exec) (e *Exec) {
	verifying = true
	defer func() {
		verifying = false
		if r := recover(); r != nil {
			msg := fmt.Sprint(r)
			if ab, ok := r.(engineAbort); ok {
				msg = ab.msg
			}
			e = newExec(p, dispName(fn))
			e.fn, e.fc = fn, fc
			st := &State{reach: "true"}
			o := e.obligeNoAssume(st, "contract:binding", "binding", contractTags(fc), "false", "the contract of this function can no longer be interpreted against its code: "+msg, fn.Pos())
			o.Pos = posOf(p, fn.Pos())
		}
	}()
	return run()
}

func guardedLemma(p *Prog, lm *Lemma) (e *Exec) {
	verifying = true
	defer func() {
		verifying = false
		if r := recover(); r != nil {
			msg := fmt.Sprint(r)
			if ab, ok := r.(engineAbort); ok {
				msg = ab.msg
			}
			e = newExec(p, "lemma "+lm.Name)
			st := &State{reach: "true"}
			e.obligeNoAssume(st, "lemma:binding", "binding", lm.Tags, "false", "the lemma can no longer be interpreted: "+msg, token.NoPos)
		}
	}()
	return verifyLemma(p, lm)
}
