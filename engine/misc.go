package main

import (
	"go/types"
	"strings"

)

// ---- program-level helpers --------------------------------------------------

// ifaceMethodContract finds the contract of method m of the named interface type t.
func (p *Prog) ifaceMethodContract(t types.Type, m string) *FuncContract {
	t = types.Unalias(t)
	n, ok := t.(*types.Named)
	if !ok || n.Obj().Pkg() == nil {
		return nil
	}
	ic := p.CS.Ifaces[n.Obj().Pkg().Path()+"::"+n.Obj().Name()]
	if ic != nil {
		if fc := ic.Methods[m]; fc != nil {
			return fc
		}
	}
	// embedded interfaces
	if it, ok := n.Underlying().(*types.Interface); ok {
		for i := 0; i < it.NumEmbeddeds(); i++ {
			if fc := p.ifaceMethodContract(it.EmbeddedType(i), m); fc != nil {
				return fc
			}
		}
	}
	return nil
}

// fieldArrays lists the array names that hold field `fname` ("*" = all) of named struct type T.
func fieldArrays(T types.Type, fname string) []string {
	stt, TT := structOf(T)
	if stt == nil {
		return nil
	}
	var out []string
	var add func(path string, ft types.Type)
	add = func(path string, ft types.Type) {
		base := fieldArrName(TT, path)
		switch kindOf(ft) {
		case KBytes:
			out = append(out, base+"_s", base+"_n")
		case KStruct:
			s := ft.Underlying().(*types.Struct)
			for i := 0; i < s.NumFields(); i++ {
				add(path+"."+s.Field(i).Name(), s.Field(i).Type())
			}
		default:
			out = append(out, base)
		}
	}
	for i := 0; i < stt.NumFields(); i++ {
		f := stt.Field(i)
		if fname == "*" || f.Name() == fname {
			add(f.Name(), f.Type())
		}
	}
	return out
}

// modArrays interprets "T.f" / "x.f" in a modifies clause at the type level.
func (p *Prog) modArrays(fc *FuncContract, m string) []string {
	m = strings.TrimSpace(m)
	switch m {
	case "SEQ":
		return []string{"SEQ_Int", "SEQ_String", "SEQ_Bool", "LEN"}
	case "MAP":
		return []string{"MAPD_Int", "MAPD_String", "MAPV_Int_Int", "MAPV_Int_Bool", "MAPV_Int_String", "MAPV_String_Int", "MAPV_String_Bool", "MAPV_String_String"}
	}
	dot := strings.LastIndex(m, ".")
	if dot < 0 {
		return nil
	}
	base, fname := m[:dot], m[dot+1:]
	var pk *types.Package
	if sp := p.SPkgs[fc.PkgPath]; sp != nil {
		pk = sp.Pkg
	}
	// a parameter / receiver name?
	lookup := func(name string) string {
		if fc.Recv != nil && (fc.Recv.Name == name || name == "self") {
			return fc.Recv.Type
		}
		for _, q := range fc.Params {
			if q.Name == name {
				return q.Type
			}
		}
		for _, q := range fc.Results {
			if q.Name == name {
				return q.Type
			}
		}
		return ""
	}
	if T := resolveTypeIn(p, pk, base); T != nil {
		if _, ok := T.Underlying().(*types.Interface); ok && fname == "*" {
			return p.implFieldArrays(T)
		}
		return fieldArrays(T, fname)
	}
	// path like x.a.b : resolve type through fields
	parts := strings.Split(base, ".")
	tsrc := lookup(parts[0])
	var T types.Type
	if tsrc != "" {
		T = resolveTypeIn(p, pk, tsrc)
	} else {
		T = resolveTypeIn(p, pk, parts[0])
	}
	if T == nil {
		return nil
	}
	for _, f := range parts[1:] {
		stt, _ := structOf(T)
		if stt == nil {
			return nil
		}
		found := false
		for i := 0; i < stt.NumFields(); i++ {
			if stt.Field(i).Name() == f {
				T = stt.Field(i).Type()
				found = true
			}
		}
		if !found {
			return nil
		}
	}
	if _, ok := T.Underlying().(*types.Interface); ok && fname == "*" {
		// self.* on an interface: all fields of all implementations' structs — use every value type
		return p.implFieldArrays(T)
	}
	return fieldArrays(T, fname)
}

// implFieldArrays: all field arrays of every module type implementing the interface.
func (p *Prog) implFieldArrays(iface types.Type) []string {
	it, ok := iface.Underlying().(*types.Interface)
	if !ok {
		return nil
	}
	var out []string
	for _, pk := range p.Pkgs {
		sc := pk.Types.Scope()
		for _, n := range sc.Names() {
			tn, ok := sc.Lookup(n).(*types.TypeName)
			if !ok {
				continue
			}
			if _, ok := tn.Type().Underlying().(*types.Struct); !ok {
				continue
			}
			if types.Implements(types.NewPointer(tn.Type()), it) || types.Implements(tn.Type(), it) {
				out = append(out, fieldArrays(tn.Type(), "*")...)
			}
		}
	}
	return out
}

// readArrays interprets a `reads` entry "T.f" or "T.*" or "Iface.*".
func (p *Prog) readArrays(pk *types.Package, r string) []string {
	r = strings.TrimSpace(r)
	switch r {
	case "SEQ_Int", "SEQ_String", "SEQ_Bool", "LEN", "BOX_Int", "BOX_String", "BOX_Bool":
		return []string{r}
	}
	dot := strings.LastIndex(r, ".")
	if dot < 0 {
		return nil
	}
	T := resolveTypeIn(p, pk, r[:dot])
	if T == nil {
		fatalf("reads: unknown type %q", r[:dot])
	}
	if _, ok := T.Underlying().(*types.Interface); ok {
		return p.implFieldArrays(T)
	}
	return fieldArrays(T, r[dot+1:])
}

func (p *Prog) arrSortByName(name string) string {
	switch {
	case strings.HasPrefix(name, "SEQ_"):
		return "(Array Int " + name[4:] + ")"
	case name == "LEN":
		return "Int"
	case strings.HasPrefix(name, "MAPD_"):
		return "(Array " + name[5:] + " Bool)"
	case strings.HasPrefix(name, "MAPV_"):
		f := strings.Split(name[5:], "_")
		return "(Array " + f[0] + " " + f[1] + ")"
	case strings.HasPrefix(name, "GF_"):
		return "Int"
	case name == "BOX_Int", name == "CELL_Int":
		return "Int"
	case name == "BOX_Bool", name == "CELL_Bool":
		return "Bool"
	case name == "BOX_String", name == "CELL_String":
		return "String"
	case strings.HasSuffix(name, "_n"):
		return "Bool"
	case strings.HasSuffix(name, "_s"):
		return "String"
	}
	if s, ok := p.fieldSorts()[name]; ok {
		return s
	}
	return "Int"
}

var fieldSortCache map[string]string

func (p *Prog) fieldSorts() map[string]string {
	if fieldSortCache != nil {
		return fieldSortCache
	}
	m := map[string]string{}
	var add func(T types.Type, path string, ft types.Type)
	add = func(T types.Type, path string, ft types.Type) {
		base := fieldArrName(T, path)
		switch kindOf(ft) {
		case KInt, KRef:
			m[base] = "Int"
		case KBool:
			m[base] = "Bool"
		case KStr:
			m[base] = "String"
		case KBytes:
			m[base+"_s"] = "String"
			m[base+"_n"] = "Bool"
		case KStruct:
			s := ft.Underlying().(*types.Struct)
			for i := 0; i < s.NumFields(); i++ {
				add(T, path+"."+s.Field(i).Name(), s.Field(i).Type())
			}
		}
	}
	for _, pk := range p.Pkgs {
		sc := pk.Types.Scope()
		for _, n := range sc.Names() {
			tn, ok := sc.Lookup(n).(*types.TypeName)
			if !ok {
				continue
			}
			st, ok := tn.Type().Underlying().(*types.Struct)
			if !ok {
				continue
			}
			for i := 0; i < st.NumFields(); i++ {
				add(tn.Type(), st.Field(i).Name(), st.Field(i).Type())
			}
		}
	}
	fieldSortCache = m
	return m
}


// ownMode: declared ownership of the field stored in array `name`
// ("owned": the referent is reachable only through this field; "inherits":
// owned/fresh whenever the containing object is).
func (p *Prog) ownMode(arr string) string {
	if p.ownCache == nil {
		p.ownCache = map[string]string{}
		for _, fd := range p.CS.Fields {
			if fd.Mode != "owned" && fd.Mode != "inherits" {
				continue
			}
			var pk *types.Package
			if sp := p.SPkgs[fd.PkgPath]; sp != nil {
				pk = sp.Pkg
			}
			T := resolveTypeIn(p, pk, fd.Type)
			if T == nil {
				fatalf("field declaration: unknown type %s", fd.Type)
			}
			p.ownCache[fieldArrName(T, fd.Field)] = fd.Mode
		}
	}
	return p.ownCache[arr]
}

// wireRelevant: is array `name` in the read-set of some heap-dependent
// specification function (no declared read-set: every non-scratch array is).
func (p *Prog) wireRelevant(name string) bool {
	if isScratchArr(name) {
		return false
	}
	if p.relCache == nil {
		p.relCache = map[string]bool{}
		for _, sf := range p.CS.Specs {
			if !sf.Heap {
				continue
			}
			var pk *types.Package
			if sp := p.SPkgs[sf.PkgPath]; sp != nil {
				pk = sp.Pkg
			}
			for _, r := range sf.Reads {
				for _, an := range p.readArrays(pk, r) {
					p.relCache[an] = true
				}
			}
		}
	}
	if len(p.relCache) == 0 {
		return true
	}
	return p.relCache[name]
}
