package main

// Hand-over tracking for []byte values. The engine models a []byte as a value
// (its content), which cannot see that two slices share a backing array. For
// functions whose contract says `handover[...]`, every []byte value carries a
// static identity of its backing array (slices and append results inherit it,
// everything else starts a new one), the path state records which identities
// have been sent on a channel, and writing through such an identity afterwards
// (append into its spare capacity, or carrying it round a loop as the buffer
// that is appended to) is an obligation of kind "handover".

import (
	"fmt"
	"strings"
	"go/types"

	"golang.org/x/tools/go/ssa"
)

func (e *Exec) ownership() bool { return e.fc != nil && len(e.fc.Owns) > 0 }

// trackIdent gives the value produced by `in` the identity of its backing array.
func (e *Exec) trackIdent(fr *Frame, st *State, in ssa.Instruction) {
	if !e.ownership() {
		return
	}
	v, ok := in.(ssa.Value)
	if !ok {
		return
	}
	val, ok := fr.vals[v]
	if !ok || val.K != KBytes {
		return
	}
	if val.Ident != "" {
		return // set where the value was produced (a load from a field)
	}
	id := ""
	switch x := in.(type) {
	case *ssa.Slice:
		if isByteSlice(x.X.Type()) {
			id = e.val(fr, x.X, st).Ident
		}
	case *ssa.ChangeType:
		id = e.val(fr, x.X, st).Ident
	case *ssa.Call:
		if b, isB := x.Call.Value.(*ssa.Builtin); isB && b.Name() == "append" {
			base := e.val(fr, x.Call.Args[0], st)
			id = base.Ident
		}
	}
	if id == "" {
		id = "v:" + v.Name()
	}
	val.Ident = id
	fr.vals[v] = val
}

// frozenTerm: the array with this identity has been handed over on this path.
func (e *Exec) frozenTerm(st *State, id string, depth int) string {
	if id == "" || depth > 8 {
		return "false"
	}
	t := "false"
	if f, ok := st.frozen[id]; ok {
		t = f
	}
	for _, a := range e.aliasOf[id] {
		t = sOr(t, sAnd(a.cond, e.frozenTerm(st, a.ident, depth+1)))
	}
	return t
}

func (e *Exec) freeze(st *State, id, cond string, depth int) {
	if id == "" || depth > 8 {
		return
	}
	cur := "false"
	if f, ok := st.frozen[id]; ok {
		cur = f
	}
	st.frozen[id] = e.S.Define("sent", "Bool", sOr(cur, sAnd(st.reach, cond)))
	for _, a := range e.aliasOf[id] {
		e.freeze(st, a.ident, sAnd(cond, a.cond), depth+1)
	}
}

// handOver: v is sent on a channel (under cond).
func (e *Exec) handOver(fr *Frame, st *State, v Val, cond string) {
	if !fr.top || !e.ownership() || v.K != KBytes {
		return
	}
	e.freeze(st, v.Ident, cond, 0)
}

// checkWritable: base is about to be written through (append may write into
// its spare capacity).
func (e *Exec) checkWritable(fr *Frame, st *State, in ssa.Instruction, base Val, what string) {
	if !fr.top || !e.ownership() || base.K != KBytes || base.Ident == "" {
		return
	}
	if sd := e.storedTerm(base.Ident, 0); sd != "false" {
		// the buffer (on some path) was stored in a field before this call: whoever
		// received it earlier (a caller, a queue) may still be using it
		e.obligeNoAssume(st, fmt.Sprintf("handover:%s-stored:%d", what, e.ord[in]), "handover", e.fc.Owns, sNot(sd),
			"a []byte that was stored in a field before this call is not written in place ("+what+" may reuse its backing array while earlier recipients still hold it)", in.Pos())
		return
	}
	f := e.frozenTerm(st, base.Ident, 0)
	if f == "false" {
		return
	}
	e.obligeNoAssume(st, fmt.Sprintf("handover:%s:%d", what, e.ord[in]), "handover", e.fc.Owns, sNot(f),
		"a []byte that was sent on a channel is not written afterwards ("+what+" may reuse its backing array)", in.Pos())
}

// checkCarried: a []byte carried into the next iteration as a loop variable
// (the buffer the loop appends to) must not be one that was handed over.
func (e *Exec) checkCarried(fr *Frame, st *State, li *loopInfo, from *ssa.BasicBlock, where string) {
	if !fr.top || !e.ownership() {
		return
	}
	for _, in := range li.header.Instrs {
		phi, ok := in.(*ssa.Phi)
		if !ok {
			break
		}
		if kindOf(phi.Type()) != KBytes {
			continue
		}
		var iv Val
		if from == nil {
			continue
		}
		iv = e.val(fr, phi.Edges[predIndex(li.header, from)], st)
		f := e.frozenTerm(st, iv.Ident, 0)
		if f == "false" {
			continue
		}
		name := phi.Comment
		if name == "" {
			name = phi.Name()
		}
		e.obligeNoAssume(st, fmt.Sprintf("handover:loop%d:%s%s", li.n, name, where), "handover", e.fc.Owns, sNot(f),
			"the buffer `"+name+"` carried into the next iteration does not share its backing array with a []byte that was sent on a channel", from.Instrs[len(from.Instrs)-1].Pos())
	}
}

var _ = types.Typ

// storedTerm: the identity is (on the selected path) a buffer that was held in a
// struct field before the call.
func (e *Exec) storedTerm(id string, depth int) string {
	if id == "" || depth > 8 {
		return "false"
	}
	if strings.HasPrefix(id, "heap:") {
		return "true"
	}
	t := "false"
	for _, a := range e.aliasOf[id] {
		t = sOr(t, sAnd(a.cond, e.storedTerm(a.ident, depth+1)))
	}
	return t
}
