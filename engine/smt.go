package main

// SMT-LIB term construction helpers and the solver portfolio.

import (
	"bytes"
	"context"
	"fmt"
	"os"
	"math/rand"
	"os/exec"
	"path/filepath"
	"regexp"
	"runtime"
	"sort"
	"strconv"
	"strings"
	"sync"
	"syscall"
	"time"
)

func sx(op string, args ...string) string {
	if len(args) == 0 {
		return op
	}
	return "(" + op + " " + strings.Join(args, " ") + ")"
}

func sAnd(args ...string) string {
	var xs []string
	for _, a := range args {
		if a == "true" {
			continue
		}
		if a == "false" {
			return "false"
		}
		xs = append(xs, a)
	}
	switch len(xs) {
	case 0:
		return "true"
	case 1:
		return xs[0]
	}
	return sx("and", xs...)
}

func sOr(args ...string) string {
	var xs []string
	for _, a := range args {
		if a == "false" {
			continue
		}
		if a == "true" {
			return "true"
		}
		xs = append(xs, a)
	}
	switch len(xs) {
	case 0:
		return "false"
	case 1:
		return xs[0]
	}
	return sx("or", xs...)
}

func sNot(a string) string {
	switch a {
	case "true":
		return "false"
	case "false":
		return "true"
	}
	if strings.HasPrefix(a, "(not ") && strings.HasSuffix(a, ")") {
		inner := a[5 : len(a)-1]
		if balanced(inner) {
			return inner
		}
	}
	return sx("not", a)
}

func balanced(s string) bool {
	d := 0
	instr := false
	for i := 0; i < len(s); i++ {
		c := s[i]
		if c == '"' {
			instr = !instr
		}
		if instr {
			continue
		}
		if c == '(' {
			d++
		} else if c == ')' {
			d--
			if d < 0 {
				return false
			}
		} else if c == ' ' && d == 0 {
			return false
		}
	}
	return d == 0
}

func sImp(a, b string) string {
	if a == "true" {
		return b
	}
	if a == "false" || b == "true" {
		return "true"
	}
	return sx("=>", a, b)
}

func sIte(c, a, b string) string {
	if c == "true" {
		return a
	}
	if c == "false" {
		return b
	}
	if a == b {
		return a
	}
	return sx("ite", c, a, b)
}

func sEq(a, b string) string {
	if a == b {
		return "true"
	}
	return sx("=", a, b)
}

func sInt(n int64) string {
	if n < 0 {
		return "(- " + strconv.FormatInt(-n, 10) + ")"
	}
	return strconv.FormatInt(n, 10)
}

// sStr renders a Go string (bytes) as an SMT-LIB 2.6 string literal.
func sStr(s string) string {
	var b strings.Builder
	b.WriteByte('"')
	for i := 0; i < len(s); i++ {
		c := s[i]
		switch {
		case c == '"':
			b.WriteString(`""`)
		case c == '\\':
			b.WriteString(`\u{5c}`)
		case c >= 0x20 && c < 0x7f:
			b.WriteByte(c)
		default:
			fmt.Fprintf(&b, `\u{%x}`, c)
		}
	}
	b.WriteByte('"')
	return b.String()
}

func sConcat(args ...string) string {
	var xs []string
	for _, a := range args {
		if a == `""` {
			continue
		}
		xs = append(xs, a)
	}
	switch len(xs) {
	case 0:
		return `""`
	case 1:
		return xs[0]
	}
	return sx("str.++", xs...)
}

func sLen(a string) string {
	if len(a) >= 2 && a[0] == '"' && !strings.Contains(a, `\u{`) && !strings.Contains(a[1:len(a)-1], `"`) {
		return strconv.Itoa(len(a) - 2)
	}
	return sx("str.len", a)
}

// ---------------------------------------------------------------------------

// Script accumulates declarations and assertions; an obligation is a prefix of
// the script plus a negated goal.
type Script struct {
	cmds  []string
	decl  map[string]bool
	fresh int
	defOf map[int]string // command index -> symbol it defines (conservative extension)
}

func newScript() *Script { return &Script{decl: map[string]bool{}, defOf: map[int]string{}} }

// AssertDef asserts (= name term) where name is a fresh constant: the
// assertion only matters to queries that mention name.
func (s *Script) AssertDef(name, term string) {
	s.defOf[len(s.cmds)] = name
	s.cmds = append(s.cmds, "(assert "+sEq(name, term)+")")
}

func (s *Script) Declare(name, sort string) string {
	if s.decl[name] {
		return name
	}
	s.decl[name] = true
	s.cmds = append(s.cmds, fmt.Sprintf("(declare-const %s %s)", name, sort))
	return name
}

func (s *Script) DeclareFun(name string, args []string, res string) {
	if s.decl[name] {
		return
	}
	s.decl[name] = true
	s.cmds = append(s.cmds, fmt.Sprintf("(declare-fun %s (%s) %s)", name, strings.Join(args, " "), res))
}

func (s *Script) Fresh(prefix, sort string) string {
	s.fresh++
	name := fmt.Sprintf("%s!%d", prefix, s.fresh)
	name = sanitize(name)
	return s.Declare(name, sort)
}

func (s *Script) Assert(t string) {
	if t == "true" {
		return
	}
	s.cmds = append(s.cmds, "(assert "+t+")")
}

func (s *Script) Comment(c string) {
	s.cmds = append(s.cmds, "; "+strings.ReplaceAll(c, "\n", " "))
}

// Define introduces a named constant equal to term (keeps terms small and
// models readable).
func (s *Script) Define(prefix, sort, term string) string {
	if isAtom(term) {
		return term
	}
	n := s.Fresh(prefix, sort)
	s.AssertDef(n, term)
	return n
}

func isAtom(t string) bool {
	if t == "" {
		return true
	}
	if t[0] == '"' {
		return true
	}
	return !strings.ContainsAny(t, " (")
}

var badIdent = regexp.MustCompile(`[^A-Za-z0-9_!.$]`)

func sanitize(n string) string { return badIdent.ReplaceAllString(n, "_") }

func (s *Script) Len() int { return len(s.cmds) }

const prelude = `(set-option :produce-models true)
(set-logic ALL)
`

// Render produces the query for an obligation that was recorded when the
// script had n commands. Only commands in the cone of influence of the goal
// are kept (declarations and assertions that share symbols transitively).
func (s *Script) Render(n int, hyp []string, goal string, getvals []string) string {
	return s.render(n, hyp, goal, getvals, true)
}

// RenderFull keeps every assertion (used to obtain a complete model that also
// satisfies preconditions outside the goal's cone of influence).
func (s *Script) RenderFull(n int, hyp []string, goal string, getvals []string) string {
	return s.render(n, hyp, goal, getvals, false)
}

func (s *Script) render(n int, hyp []string, goal string, getvals []string, cone bool) string {
	var b strings.Builder
	b.WriteString(prelude)
	cmds := s.cmds[:n]
	var keep []bool
	if cone {
		keep = coneOfInfluence(cmds, append(append([]string{}, hyp...), goal), s.defOf)
	} else {
		keep = make([]bool, len(cmds))
		for i := range keep {
			keep[i] = true
		}
	}
	for i, c := range cmds {
		if keep[i] {
			b.WriteString(c)
			b.WriteByte('\n')
		}
	}
	for _, h := range hyp {
		if h != "true" {
			b.WriteString("(assert " + h + ")\n")
		}
	}
	b.WriteString("(assert " + sNot(goal) + ")\n")
	b.WriteString("(check-sat)\n")
	// only terms over symbols that are part of this query can be evaluated
	declared := map[string]bool{}
	for i, c := range cmds {
		if keep[i] && strings.HasPrefix(c, "(declare-") {
			declared[strings.Fields(c)[1]] = true
		}
	}
	var gv []string
	for _, t := range getvals {
		ok := true
		for _, y := range symbolsOf(t) {
			if !declared[y] && !smtBuiltin[y] {
				ok = false
				break
			}
		}
		if ok {
			gv = append(gv, t)
		}
	}
	if len(gv) > 0 {
		b.WriteString("(get-value (" + strings.Join(gv, " ") + "))\n")
	}
	return b.String()
}

var smtBuiltin = map[string]bool{"select": true, "store": true, "seq.len": true, "seq.nth": true, "as": true, "const": true, "Array": true, "Int": true, "String": true, "Bool": true, "str.len": true, "ite": true, "true": true, "false": true}

var symRe = regexp.MustCompile(`[A-Za-z_][A-Za-z0-9_!.$]*`)

func symbolsOf(s string) []string {
	// strip string literals
	var b strings.Builder
	in := false
	for i := 0; i < len(s); i++ {
		if s[i] == '"' {
			in = !in
			continue
		}
		if !in {
			b.WriteByte(s[i])
		}
	}
	return symRe.FindAllString(b.String(), -1)
}

// coneOfInfluence keeps every declaration whose symbol is needed and every
// assertion that mentions at least one needed non-builtin symbol; needed
// symbols grow transitively through kept assertions.
func coneOfInfluence(cmds []string, roots []string, defOf map[int]string) []bool {
	type info struct {
		syms   []string
		isDecl bool
		name   string
	}
	infos := make([]info, len(cmds))
	declared := map[string]bool{}
	for i, c := range cmds {
		if strings.HasPrefix(c, "(declare-") {
			f := strings.Fields(c)
			infos[i] = info{isDecl: true, name: f[1]}
			declared[f[1]] = true
		}
	}
	for i, c := range cmds {
		if infos[i].isDecl || strings.HasPrefix(c, ";") {
			continue
		}
		var ss []string
		for _, y := range symbolsOf(c) {
			if declared[y] {
				ss = append(ss, y)
			}
		}
		infos[i].syms = ss
	}
	need := map[string]bool{}
	for _, r := range roots {
		for _, y := range symbolsOf(r) {
			if declared[y] {
				need[y] = true
			}
		}
	}
	// closure of a fact's symbols through definitions (a fact about a defined
	// name is relevant when the definition mentions something relevant)
	defSyms := map[string][]string{}
	for i, d := range defOf {
		if i < len(cmds) {
			defSyms[d] = infos[i].syms
		}
	}
	closure := make([]map[string]bool, len(cmds))
	for i := range cmds {
		if infos[i].isDecl || len(infos[i].syms) == 0 {
			continue
		}
		if _, isDef := defOf[i]; isDef {
			continue
		}
		cl := map[string]bool{}
		stack := append([]string{}, infos[i].syms...)
		for len(stack) > 0 {
			y := stack[len(stack)-1]
			stack = stack[:len(stack)-1]
			if cl[y] {
				continue
			}
			cl[y] = true
			stack = append(stack, defSyms[y]...)
		}
		closure[i] = cl
	}
	keep := make([]bool, len(cmds))
	changed := true
	for changed {
		changed = false
		for i := range cmds {
			if keep[i] || infos[i].isDecl || len(infos[i].syms) == 0 {
				continue
			}
			hit := false
			if d, isDef := defOf[i]; isDef {
				// a definition is pulled in only by demand for the symbol it defines
				hit = need[d]
			} else {
				for y := range closure[i] {
					if need[y] {
						hit = true
						break
					}
				}
			}
			if hit {
				keep[i] = true
				changed = true
				for _, y := range infos[i].syms {
					if !need[y] {
						need[y] = true
					}
				}
			}
		}
	}
	for i := range cmds {
		if infos[i].isDecl && need[infos[i].name] {
			keep[i] = true
		}
		if strings.HasPrefix(cmds[i], "(declare-fun") {
			// function declarations may reference only sorts; keep if needed
			keep[i] = need[infos[i].name]
		}
	}
	return keep
}

// ---------------------------------------------------------------------------

type SolverResult struct {
	Status  string // unsat | sat | unknown | timeout | error
	Backend string
	TimeS   float64
	Output  string
	Model   map[string]string
	All     map[string]string // backend -> status (thorough tier)
}

type solverSpec struct {
	name string
	argv func(file string, timeoutS int, seed int) []string
}

var solvers = []solverSpec{
	{"z3-5.1.0", func(f string, t, seed int) []string {
		return []string{"z3-new", "model_validate=true", fmt.Sprintf("-T:%d", t), fmt.Sprintf("sat.random_seed=%d", seed), fmt.Sprintf("smt.random_seed=%d", seed), f}
	}},
	{"cvc5-1.0.3", func(f string, t, seed int) []string {
		return []string{"cvc5", "--strings-exp", "--produce-models", fmt.Sprintf("--tlimit=%d", t*1000), fmt.Sprintf("--seed=%d", seed), f}
	}},
	{"z3-4.8.12", func(f string, t, seed int) []string {
		return []string{"z3", "model_validate=true", fmt.Sprintf("-T:%d", t), fmt.Sprintf("sat.random_seed=%d", seed), fmt.Sprintf("smt.random_seed=%d", seed), f}
	}},
}

var solverSem = make(chan struct{}, 14)

// machineSlot takes one of NumCPU machine-wide slots (lock files shared by all govc
// processes), so that checks run side by side do not starve each other's solvers into
// timeouts: the time a query waits for a slot does not count against its timeout.
func machineSlot(ctx context.Context) func() {
	dir := filepath.Join(os.TempDir(), "govc-slots")
	if err := os.MkdirAll(dir, 0o777); err != nil {
		return func() {}
	}
	n := runtime.NumCPU()
	if n < 2 {
		n = 2
	}
	start := rand.Intn(n)
	for {
		for i := 0; i < n; i++ {
			f, err := os.OpenFile(filepath.Join(dir, fmt.Sprintf("slot%d", (start+i)%n)), os.O_CREATE|os.O_RDWR, 0o666)
			if err != nil {
				return func() {}
			}
			if syscall.Flock(int(f.Fd()), syscall.LOCK_EX|syscall.LOCK_NB) == nil {
				return func() { _ = syscall.Flock(int(f.Fd()), syscall.LOCK_UN); f.Close() }
			}
			f.Close()
		}
		if ctx.Err() != nil {
			return func() {}
		}
		time.Sleep(15 * time.Millisecond)
	}
}

func runOne(ctx context.Context, sp solverSpec, file string, timeoutS, seed int) SolverResult {
	solverSem <- struct{}{}
	defer func() { <-solverSem }()
	if ctx.Err() != nil {
		return SolverResult{Status: "cancelled", Backend: sp.name}
	}
	release := machineSlot(ctx)
	defer release()
	if ctx.Err() != nil {
		return SolverResult{Status: "cancelled", Backend: sp.name}
	}
	argv := sp.argv(file, timeoutS, seed)
	cctx, cancel := context.WithTimeout(ctx, time.Duration(timeoutS+2)*time.Second)
	defer cancel()
	cmd := exec.CommandContext(cctx, argv[0], argv[1:]...)
	var out bytes.Buffer
	cmd.Stdout = &out
	cmd.Stderr = &out
	t0 := time.Now()
	_ = cmd.Run()
	el := time.Since(t0).Seconds()
	text := out.String()
	first := strings.TrimSpace(strings.SplitN(text, "\n", 2)[0])
	st := "error"
	switch first {
	case "unsat", "sat", "unknown":
		st = first
		if first == "sat" && strings.Contains(text, "invalid model") {
			// z3's string solver occasionally answers sat with a model that does not satisfy the
			// assertions (seen with str.++/uninterpreted functions); model validation is on and
			// such an answer counts as no answer
			st = "unknown"
		}
	case "timeout":
		st = "timeout"
	default:
		if strings.Contains(first, "error") && ctx.Err() == nil {
			st = "error"
		} else if ctx.Err() != nil {
			st = "cancelled"
		} else if cctx.Err() != nil || strings.Contains(text, "timeout") || strings.Contains(text, "interrupted") {
			st = "timeout"
		}
	}
	return SolverResult{Status: st, Backend: sp.name, TimeS: el, Output: text}
}

// solve races the installed solvers on one query. In thorough mode every
// solver is run to completion (or timeout) and a disagreement is an error.
func solve(file string, timeoutS, seed int, thorough bool) SolverResult {
	ctx, cancel := context.WithCancel(context.Background())
	defer cancel()
	ch := make(chan SolverResult, len(solvers))
	var wg sync.WaitGroup
	for _, sp := range solvers {
		wg.Add(1)
		go func(sp solverSpec) {
			defer wg.Done()
			ch <- runOne(ctx, sp, file, timeoutS, seed)
		}(sp)
	}
	go func() { wg.Wait(); close(ch) }()
	var best *SolverResult
	all := map[string]string{}
	var last SolverResult
	for r := range ch {
		r := r
		all[r.Backend] = r.Status
		last = r
		if r.Status == "unsat" || r.Status == "sat" {
			if best == nil {
				best = &r
				if !thorough {
					cancel()
				} else {
					// the other solvers get a grace period to contradict the answer
					// (ten times what the first one needed, at least 10 s), not the full timeout
					grace := time.Duration(r.TimeS*10*float64(time.Second)) + 10*time.Second
					go func() {
						select {
						case <-time.After(grace):
							cancel()
						case <-ctx.Done():
						}
					}()
				}
			} else if best.Status != r.Status {
				best.Status = "disagree"
				best.Output += "\n--- " + r.Backend + " says " + r.Status + "\n" + r.Output
			}
		}
	}
	if best == nil {
		// prefer timeout over unknown/error for reporting
		st := "unknown"
		for _, s := range all {
			if s == "timeout" {
				st = "timeout"
			}
		}
		nerr := 0
		for _, s := range all {
			if s == "error" {
				nerr++
			}
		}
		if nerr == len(all) {
			st = "error"
		}
		last.Status = st
		last.All = all
		return last
	}
	best.All = all
	if best.Status == "sat" {
		best.Model = parseModel(best.Output)
	}
	return *best
}

// parseModel reads the (get-value ...) answer: ((name value) (name value) ...)
func parseModel(out string) map[string]string {
	m := map[string]string{}
	i := strings.Index(out, "\n")
	if i < 0 {
		return m
	}
	rest := strings.TrimSpace(out[i+1:])
	toks := tokenize(rest)
	// parse one s-expression list of pairs
	pos := 0
	var parse func() interface{}
	parse = func() interface{} {
		if pos >= len(toks) {
			return nil
		}
		t := toks[pos]
		pos++
		if t == "(" {
			var xs []interface{}
			for pos < len(toks) && toks[pos] != ")" {
				xs = append(xs, parse())
			}
			pos++
			return xs
		}
		return t
	}
	top := parse()
	lst, ok := top.([]interface{})
	if !ok {
		return m
	}
	for _, p := range lst {
		pr, ok := p.([]interface{})
		if !ok || len(pr) != 2 {
			continue
		}
		m[render(pr[0])] = render(pr[1])
	}
	return m
}

func render(x interface{}) string {
	switch v := x.(type) {
	case string:
		return v
	case []interface{}:
		var ss []string
		for _, e := range v {
			ss = append(ss, render(e))
		}
		return "(" + strings.Join(ss, " ") + ")"
	}
	return ""
}

func tokenize(s string) []string {
	var toks []string
	i := 0
	for i < len(s) {
		c := s[i]
		switch {
		case c == '(' || c == ')':
			toks = append(toks, string(c))
			i++
		case c == ' ' || c == '\n' || c == '\t' || c == '\r':
			i++
		case c == '"':
			j := i + 1
			for j < len(s) {
				if s[j] == '"' {
					if j+1 < len(s) && s[j+1] == '"' {
						j += 2
						continue
					}
					break
				}
				j++
			}
			toks = append(toks, s[i:j+1])
			i = j + 1
		default:
			j := i
			for j < len(s) && !strings.ContainsRune("() \n\t\r", rune(s[j])) {
				j++
			}
			toks = append(toks, s[i:j])
			i = j
		}
	}
	return toks
}

// smtStringToGo decodes an SMT-LIB string literal into raw bytes (code points
// above 255 are reduced mod 256 and flagged).
func smtStringToGo(lit string) (string, bool) {
	if len(lit) < 2 || lit[0] != '"' {
		return "", false
	}
	body := lit[1 : len(lit)-1]
	var out []byte
	exact := true
	for i := 0; i < len(body); {
		if body[i] == '"' && i+1 < len(body) && body[i+1] == '"' {
			out = append(out, '"')
			i += 2
			continue
		}
		if strings.HasPrefix(body[i:], `\u{`) {
			j := strings.Index(body[i:], "}")
			if j > 0 {
				n, err := strconv.ParseInt(body[i+3:i+j], 16, 32)
				if err == nil {
					if n > 255 {
						exact = false
					}
					out = append(out, byte(n%256))
					i += j + 1
					continue
				}
			}
		}
		if strings.HasPrefix(body[i:], `\u`) && i+6 <= len(body) {
			n, err := strconv.ParseInt(body[i+2:i+6], 16, 32)
			if err == nil {
				if n > 255 {
					exact = false
				}
				out = append(out, byte(n%256))
				i += 6
				continue
			}
		}
		if strings.HasPrefix(body[i:], `\x`) && i+4 <= len(body) {
			n, err := strconv.ParseInt(body[i+2:i+4], 16, 32)
			if err == nil {
				out = append(out, byte(n))
				i += 4
				continue
			}
		}
		out = append(out, body[i])
		i++
	}
	return string(out), exact
}

func smtIntToGo(v string) (int64, bool) {
	v = strings.TrimSpace(v)
	if strings.HasPrefix(v, "(-") {
		inner := strings.TrimSpace(strings.TrimSuffix(strings.TrimPrefix(v, "(-"), ")"))
		n, err := strconv.ParseInt(inner, 10, 64)
		return -n, err == nil
	}
	n, err := strconv.ParseInt(v, 10, 64)
	return n, err == nil
}

func writeQuery(dir, name, text string) string {
	_ = os.MkdirAll(dir, 0o755)
	p := filepath.Join(dir, sanitize(name)+".smt2")
	_ = os.WriteFile(p, []byte(text), 0o644)
	return p
}

func sortedKeys[V any](m map[string]V) []string {
	var ks []string
	for k := range m {
		ks = append(ks, k)
	}
	sort.Strings(ks)
	return ks
}
