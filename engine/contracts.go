package main

// Parsing of the //@ contract files (comment-only Go files behind build tag verif).

import (
	"crypto/sha256"
	"fmt"
	"go/ast"
	"go/parser"
	"go/token"
	"os"
	"path/filepath"
	"regexp"
	"sort"
	"strconv"
	"strings"
)

type Clause struct {
	Kind  string // requires ensures invariant decreases lemma witness assert
	Tags  []string
	Label string
	Text  string
	Expr  ast.Expr
	Name  string // witness name / lemma name
	Args  []ast.Expr
	File  string
	Line  int
}

type LoopSpec struct {
	N          int
	Invariants []Clause
	Decreases  *Clause
	Lemmas     []Clause
	Modifies   []string // extra ghost/heap names to havoc (normally computed)
}

type CallSpec struct { // clauses attached to the k-th call of a callee
	Callee  string
	N       int
	Lemmas  []Clause // instantiated before the call
	Inst    [][]Clause // instantiations of the callee's forall variables (each: list of name = expr)
	Witness []Clause // named values captured right after the call
	Asserts []Clause // intermediate obligations right after the call (then assumed)
	After   []Clause // lemma instances right after the call
	Set     []Clause // ghost assignments executed right after the call (ghost code at the site)
}

type Param struct {
	Name string
	Type string // source text of the type
}

type FuncContract struct {
	PkgPath  string
	Key      string // "(*T).M", "T.M", "F", or closure key "(*T).M#Label"
	Params   []Param
	Results  []Param
	Recv     *Param
	Requires []Clause
	Ensures  []Clause
	Assumes  []Clause // post-conditions callers may use but which are not proved (listed as assumptions)
	Epilogue []Clause // ghost assignments executed at every return (ghost code of the function)
	Modifies []string
	Safety   []string // property tags under which panic-freedom obligations are claimed
	Scenario   string // name of a scenario battery under /verif/scenarios replayed when an obligation of this function fails
	ChanTags   []string
	Shared     []string // names of results that are shared with other goroutines / parameters that accept shared values
	SharedTags []string
	ChanResult string // the result is the channel whose ghost log is named by this counter (`yields log N`)
	Owns     []string // property tags under which hand-over obligations ([]byte sent on a channel is not written afterwards) are claimed
	Term     []string // property tags for termination (decreases) obligations
	Pure     bool
	Inline   bool
	MayPanic bool
	Trusted  bool // contract is assumed (body not verified); listed in evidence
	Extern   bool // assumed contract of a function outside the module
	Witness  []Clause
	Lemmas   []Clause
	Unfolds  []Clause // lemma instances assumed at function entry
	Reveal   []string // opaque spec functions whose definitions this proof needs
	Forall   []Param  // universally quantified ghost variables (arbitrary but fixed per verification)
	Callbacks []string // "param mode": how calls of function-typed parameters are treated
	DefaultCallback string
	Loops    map[int]*LoopSpec
	Calls    []*CallSpec
	Roles    []string
	Holds    []string
	Acquires []string
	// closures
	IsClosure bool
	Parent    string
	Label     string
	Anchor    string
	File      string
	Line      int
	Used      bool
}

type SpecFn struct {
	PkgPath string
	Name    string
	Params  []Param
	Res     string
	Body    ast.Expr // nil: uninterpreted
	Reads   []string // "T.f" heap fields passed implicitly (uninterpreted heap-reading functions)
	Heap    bool     // uninterpreted over the heap version token (frame rule of DESIGN 3.3)
	Opaque  bool     // definition hidden unless the function under verification reveals it
	Unfolds map[string]*Lemma
	File    string
	Line    int
}

type Lemma struct {
	Reveal   []string
	PkgPath  string
	Name     string
	Params   []Param
	Requires ast.Expr
	Ensures  ast.Expr
	Trusted  bool // unfold / trusted schema: not proved
	Tags     []string
	Hints    []Clause // lemma instantiations used to prove this lemma
	File     string
	Line     int
}

type IfaceContract struct {
	PkgPath string
	Name    string
	Impls   []string // closed list of implementing types checked for refinement (empty: all module implementers)
	Assumed bool // implementations outside the library: contracts are assumptions
	Methods map[string]*FuncContract
}

type FieldDecl struct {
	PkgPath string
	Type    string
	Field   string
	Mode    string   // guarded_by atomic confined immutable_after owned shared_readonly monitor
	Args    []string // lock / role / function list
	Inv     ast.Expr // monitor: two-state invariant over self, old(self.f) and ghosts
	InvText string
	Tags    []string
	File    string
	Line    int
}

// BoundedDecl: a bounded stand-in (a test harness under /verif/bounded run against the
// tree under check) for a part of a property the deductive verifier does not decide.
const modPathConst = "github.com/b2broker/simplefix-go"

type BoundedDecl struct {
	Name    string
	PkgPath string
	Tags    []string
	What    string
}

type ChanDecl struct {
	PkgPath   string
	Type      string
	Field     string
	Senders   []string
	Receivers []string
	Closers   []string
	Tags      []string
}

// ChanLog: every value sent on the channel held in T.f is appended to the ghost
// log (countGhost, contentGhost); receives consume from (recvGhost).
type ChanLog struct {
	PkgPath string
	Type    string
	Field   string
	N       string
	At      string
	Recv    string
}

type GlobalDecl struct {
	PkgPath string
	Name    string
	Expr    ast.Expr
	Text    string
	Tags    []string
}

type GhostDecl struct {
	Name     string
	Type     string
	Monotone bool
}

type Contracts struct {
	Funcs  map[string]*FuncContract // pkgpath + "::" + key
	Specs  map[string]*SpecFn       // name (global namespace)
	Lemmas map[string]*Lemma
	Ifaces map[string]*IfaceContract // pkgpath::Name
	Fields []*FieldDecl
	Chans  []*ChanDecl
	Ghosts map[string]*GhostDecl
	GhostFields map[string]string  // name -> type: ghost attributes of objects (arrays GF_<name>)
	Unscoped    map[string][]string // pkgpath::key -> property tags: functions outside a discipline sweep
	Groups      map[string][]string // package path -> properties that share the package's state machine: a clause tagged with one of them counts for all
	Bounded     []BoundedDecl
	RuleArgs    map[string][]string // rule name -> function keys (pkgpath::key) it applies to
	Rules       map[string][]string // whole-module syntactic rules claimed for properties (rule[tags] name)
	ChanLogs    []*ChanLog          // ghost logs of channel fields
	Globals map[string]*GlobalDecl // pkgpath.Name
	Externs map[string]*FuncContract // assumed contracts of functions outside the module, by full name
	forallNames map[string]bool
	Files  []string
	Sha    map[string]string
	LockNotes []string // deviations of the repository's contract files from the locked copies
	Locked int
}

func newContracts() *Contracts {
	return &Contracts{Funcs: map[string]*FuncContract{}, Specs: map[string]*SpecFn{}, Lemmas: map[string]*Lemma{},
		Ifaces: map[string]*IfaceContract{}, Ghosts: map[string]*GhostDecl{}, GhostFields: map[string]string{}, Unscoped: map[string][]string{}, Globals: map[string]*GlobalDecl{}, Externs: map[string]*FuncContract{}, Groups: map[string][]string{}, Rules: map[string][]string{}, RuleArgs: map[string][]string{}, Sha: map[string]string{}}
}

type cline struct {
	indent int
	text   string
	line   int
}

var tagRe = regexp.MustCompile(`^\[([A-Za-z0-9_, ]+)\]`)
var labelRe = regexp.MustCompile(`^@([A-Za-z0-9_\-]+)\s+`)

func parseExprAt(src, file string, line int) ast.Expr {
	e, err := parser.ParseExpr(src)
	if err != nil {
		fatalf("%s:%d: cannot parse contract expression %q: %v", file, line, src, err)
	}
	return e
}

// engineAbort: a fatal condition raised while a function is being verified
// (its contract no longer fits the code); verifyFunc turns it into a failed
// obligation instead of ending the run.
type engineAbort struct{ msg string }

var verifying bool

func fatalf(f string, a ...interface{}) {
	if verifying {
		panic(engineAbort{fmt.Sprintf(f, a...)})
	}
	fmt.Fprintf(os.Stderr, "govc: "+f+"\n", a...)
	os.Exit(3)
}

// splitTop splits s on sep at parenthesis depth 0.
func splitTop(s string, sep byte) []string {
	var out []string
	d := 0
	last := 0
	instr := false
	for i := 0; i < len(s); i++ {
		c := s[i]
		if c == '"' {
			instr = !instr
		}
		if instr {
			continue
		}
		switch c {
		case '(', '[', '{':
			d++
		case ')', ']', '}':
			d--
		default:
			if c == sep && d == 0 {
				out = append(out, strings.TrimSpace(s[last:i]))
				last = i + 1
			}
		}
	}
	out = append(out, strings.TrimSpace(s[last:]))
	return out
}

func parseParams(s string) []Param {
	s = strings.TrimSpace(s)
	if s == "" {
		return nil
	}
	var ps []Param
	for _, part := range splitTop(s, ',') {
		f := strings.SplitN(strings.TrimSpace(part), " ", 2)
		p := Param{Name: f[0]}
		if len(f) == 2 {
			p.Type = strings.TrimSpace(f[1])
		}
		ps = append(ps, p)
	}
	// Go-style "a, b int": propagate types backwards
	for i := len(ps) - 2; i >= 0; i-- {
		if ps[i].Type == "" {
			ps[i].Type = ps[i+1].Type
		}
	}
	return ps
}

// parseSig parses "[(recv)] Name(params) [(results) | type]".
func parseSig(s, file string, line int) (recv *Param, name string, params, results []Param) {
	s = strings.TrimSpace(s)
	if strings.HasPrefix(s, "(") {
		end := matchParen(s, 0)
		r := parseParams(s[1:end])
		if len(r) == 1 {
			recv = &r[0]
			if recv.Type == "" { // "(T)" without a name
				recv.Type = recv.Name
				recv.Name = "self"
			}
		}
		s = strings.TrimSpace(s[end+1:])
	}
	i := strings.Index(s, "(")
	if i < 0 {
		fatalf("%s:%d: bad signature %q", file, line, s)
	}
	name = strings.TrimSpace(s[:i])
	end := matchParen(s, i)
	params = parseParams(s[i+1 : end])
	rest := strings.TrimSpace(s[end+1:])
	if rest != "" {
		if strings.HasPrefix(rest, "(") {
			e := matchParen(rest, 0)
			results = parseParams(rest[1:e])
		} else {
			results = []Param{{Name: "res", Type: rest}}
		}
	}
	return
}

func matchParen(s string, i int) int {
	d := 0
	for j := i; j < len(s); j++ {
		switch s[j] {
		case '(':
			d++
		case ')':
			d--
			if d == 0 {
				return j
			}
		}
	}
	return len(s) - 1
}

var topKeywords = map[string]bool{"func": true, "closure": true, "spec": true, "lemma": true, "interface": true,
	"field": true, "chan": true, "ghost": true, "axiom": true, "global": true, "ghostfield": true, "unscoped": true, "chanlog": true, "callguard": true, "extern": true, "rule": true, "bounded": true, "group": true}

var clauseKeywords = map[string]bool{"requires": true, "ensures": true, "shared": true, "modifies": true, "safety": true, "pure": true,
	"inline": true, "may_panic": true, "witness": true, "lemma": true, "role": true, "holds": true, "acquires": true,
	"decreases": true, "loop": true, "invariant": true, "unfold": true, "method": true, "reads": true, "trusted": true,
	"assumed": true, "terminates": true, "call": true, "hint": true, "anchor": true, "reveal": true, "assert": true, "after": true, "forall": true, "inst": true, "callback": true, "assumes": true, "epilogue": true, "set": true, "handover": true, "yields": true, "scenario": true}

func firstWord(s string) string {
	s = strings.TrimSpace(s)
	for i := 0; i < len(s); i++ {
		c := s[i]
		if !(c == '_' || c >= 'a' && c <= 'z' || c >= 'A' && c <= 'Z') {
			return s[:i]
		}
	}
	return s
}

func (cs *Contracts) LoadFile(path, pkgPath string) {
	cs.LoadFileAs(path, path, pkgPath)
}

// LoadFileAs reads the contract text from src and records it under the name path.
func (cs *Contracts) LoadFileAs(src, path, pkgPath string) {
	data, err := os.ReadFile(src)
	if err != nil {
		fatalf("read %s: %v", src, err)
	}
	cs.Files = append(cs.Files, path)
	cs.Sha[path] = fmt.Sprintf("%x", sha256.Sum256(data))
	var lines []cline
	for i, l := range strings.Split(string(data), "\n") {
		t := strings.TrimLeft(l, " \t")
		if !strings.HasPrefix(t, "//@") {
			continue
		}
		body := t[3:]
		if k := strings.Index(body, " -- "); k >= 0 {
			body = body[:k]
		}
		if strings.TrimSpace(body) == "" {
			continue
		}
		ind := len(body) - len(strings.TrimLeft(body, " "))
		lines = append(lines, cline{ind, strings.TrimSpace(body), i + 1})
	}
	// group into blocks
	var blocks [][]cline
	for _, l := range lines {
		if l.indent <= 1 && topKeywords[firstWord(l.text)] {
			blocks = append(blocks, []cline{l})
		} else if len(blocks) > 0 {
			blocks[len(blocks)-1] = append(blocks[len(blocks)-1], l)
		} else {
			fatalf("%s:%d: clause outside a block", path, l.line)
		}
	}
	for _, b := range blocks {
		cs.parseBlock(b, path, pkgPath)
	}
}

// joinClauses merges continuation lines into clause lines.
func joinClauses(ls []cline) []cline {
	var out []cline
	for _, l := range ls {
		if clauseKeywords[firstWord(l.text)] || len(out) == 0 {
			out = append(out, l)
		} else {
			out[len(out)-1].text += " " + l.text
		}
	}
	return out
}

func parseTagged(rest string) (tags []string, label string, body string) {
	rest = strings.TrimSpace(rest)
	if m := tagRe.FindStringSubmatch(rest); m != nil {
		for _, t := range strings.Split(m[1], ",") {
			tags = append(tags, strings.TrimSpace(t))
		}
		rest = strings.TrimSpace(rest[len(m[0]):])
	}
	if m := labelRe.FindStringSubmatch(rest); m != nil {
		label = m[1]
		rest = rest[len(m[0]):]
	}
	return tags, label, strings.TrimSpace(rest)
}

func parseLemmaCall(text, file string, line int) Clause {
	// name(args)
	e := parseExprAt(text, file, line)
	call, ok := e.(*ast.CallExpr)
	if !ok {
		fatalf("%s:%d: lemma instantiation must be a call: %q", file, line, text)
	}
	id, ok := call.Fun.(*ast.Ident)
	if !ok {
		fatalf("%s:%d: lemma name expected: %q", file, line, text)
	}
	return Clause{Kind: "lemma", Name: id.Name, Args: call.Args, Text: text, File: file, Line: line}
}

func (cs *Contracts) parseFuncClauses(fc *FuncContract, ls []cline, path string) {
	// A "loop N:" or "call F#N:" line opens a section; clauses indented deeper
	// than that line (or written on the same line) belong to the section.
	var curLoop *LoopSpec
	var curCall *CallSpec
	secIndent := -1
	for _, l := range joinClauses(ls) {
		kw := firstWord(l.text)
		rest := strings.TrimSpace(l.text[len(kw):])
		if secIndent >= 0 && l.indent <= secIndent {
			curLoop, curCall, secIndent = nil, nil, -1
		}
		switch kw {
		case "loop":
			k := strings.Index(rest, ":")
			n, err := strconv.Atoi(strings.TrimSpace(rest[:k]))
			if err != nil {
				fatalf("%s:%d: bad loop ordinal", path, l.line)
			}
			curLoop, curCall, secIndent = &LoopSpec{N: n}, nil, l.indent
			if fc.Loops == nil {
				fc.Loops = map[int]*LoopSpec{}
			}
			fc.Loops[n] = curLoop
			if rem := strings.TrimSpace(rest[k+1:]); rem != "" {
				cs.parseFuncClauses2(fc, curLoop, nil, cline{l.indent + 1, rem, l.line}, path)
			}
			continue
		case "call":
			k := strings.Index(rest, ":")
			spec := strings.TrimSpace(rest[:k])
			n := 1
			if h := strings.LastIndex(spec, "#"); h >= 0 {
				n, _ = strconv.Atoi(spec[h+1:])
				spec = spec[:h]
			}
			curCall, curLoop, secIndent = &CallSpec{Callee: spec, N: n}, nil, l.indent
			fc.Calls = append(fc.Calls, curCall)
			if rem := strings.TrimSpace(rest[k+1:]); rem != "" {
				cs.parseFuncClauses2(fc, nil, curCall, cline{l.indent + 1, rem, l.line}, path)
			}
			continue
		}
		cs.parseFuncClauses2(fc, curLoop, curCall, l, path)
	}
}

func (cs *Contracts) parseFuncClauses2(fc *FuncContract, loop *LoopSpec, call *CallSpec, l cline, path string) {
	kw := firstWord(l.text)
	rest := strings.TrimSpace(l.text[len(kw):])
	mk := func(kind string) Clause {
		tags, label, body := parseTagged(rest)
		return Clause{Kind: kind, Tags: tags, Label: label, Text: body, Expr: parseExprAt(body, path, l.line), File: path, Line: l.line}
	}
	switch kw {
	case "requires":
		fc.Requires = append(fc.Requires, mk("requires"))
	case "ensures":
		fc.Ensures = append(fc.Ensures, mk("ensures"))
	case "assumes":
		fc.Assumes = append(fc.Assumes, mk("assumes"))
	case "epilogue":
		k := strings.Index(rest, "=")
		name := strings.TrimSpace(rest[:k])
		body := strings.TrimSpace(rest[k+1:])
		fc.Epilogue = append(fc.Epilogue, Clause{Kind: "epilogue", Name: name, Text: body, Expr: parseExprAt(body, path, l.line), File: path, Line: l.line})
	case "invariant":
		if loop == nil {
			fatalf("%s:%d: invariant outside loop", path, l.line)
		}
		loop.Invariants = append(loop.Invariants, mk("invariant"))
	case "decreases":
		c := mk("decreases")
		if loop != nil {
			loop.Decreases = &c
		} else {
			fc.Witness = append(fc.Witness, Clause{Kind: "decreases", Expr: c.Expr, Text: c.Text, Tags: c.Tags, File: path, Line: l.line})
		}
	case "lemma":
		for _, part := range splitTop(rest, ';') {
			if part == "" {
				continue
			}
			c := parseLemmaCall(part, path, l.line)
			switch {
			case loop != nil:
				loop.Lemmas = append(loop.Lemmas, c)
			case call != nil:
				call.Lemmas = append(call.Lemmas, c)
			default:
				fc.Lemmas = append(fc.Lemmas, c)
			}
		}
	case "unfold":
		for _, part := range splitTop(rest, ';') {
			if part != "" {
				fc.Unfolds = append(fc.Unfolds, parseLemmaCall(part, path, l.line))
			}
		}
	case "reveal":
		fc.Reveal = append(fc.Reveal, splitTop(rest, ',')...)
	case "forall":
		fc.Forall = append(fc.Forall, parseParams(rest)...)
	case "callback":
		f := strings.Fields(rest)
		if len(f) == 1 {
			fc.DefaultCallback = f[0]
		} else {
			fc.Callbacks = append(fc.Callbacks, rest)
		}
	case "inst":
		if call == nil {
			fatalf("%s:%d: inst is only allowed in a call section", path, l.line)
		}
		var one []Clause
		for _, part := range splitTop(rest, ',') {
			k := strings.Index(part, "=")
			one = append(one, Clause{Kind: "inst", Name: strings.TrimSpace(part[:k]), Text: part, Expr: parseExprAt(strings.TrimSpace(part[k+1:]), path, l.line), File: path, Line: l.line})
		}
		call.Inst = append(call.Inst, one)
	case "modifies":
		for _, m := range splitTop(rest, ',') {
			if m == "" {
				continue
			}
			if loop != nil {
				loop.Modifies = append(loop.Modifies, m)
			} else {
				fc.Modifies = append(fc.Modifies, m)
			}
		}
	case "safety":
		tags, _, _ := parseTagged(rest)
		fc.Safety = append(fc.Safety, tags...)
	case "terminates":
		tags, _, _ := parseTagged(rest)
		fc.Term = append(fc.Term, tags...)
	case "yields":
		// yields log <N>: the (channel) result is the one logged by chanlog ... N ...
		tags, _, body := parseTagged(rest)
		f := strings.Fields(body)
		if len(f) != 2 || f[0] != "log" {
			fatalf("%s:%d: yields log <counter>", path, l.line)
		}
		fc.ChanResult = f[1]
		fc.ChanTags = tags
	case "shared":
		// shared[tags] name: a result of that name may be used by other goroutines at the same
		// time (it must only flow to pure code or to parameters declared shared); a parameter of
		// that name accepts such a value
		tags, _, body := parseTagged(rest)
		for _, n := range strings.Fields(strings.ReplaceAll(body, ",", " ")) {
			fc.Shared = append(fc.Shared, n)
		}
		fc.SharedTags = append(fc.SharedTags, tags...)
	case "scenario":
		fc.Scenario = strings.TrimSpace(rest)
	case "handover":
		tags, _, _ := parseTagged(rest)
		fc.Owns = append(fc.Owns, tags...)
	case "pure":
		fc.Pure = true
	case "inline":
		fc.Inline = true
	case "may_panic":
		fc.MayPanic = true
	case "trusted", "assumed":
		fc.Trusted = true
	case "witness":
		k := strings.Index(rest, "=")
		name := strings.TrimSpace(rest[:k])
		body := strings.TrimSpace(rest[k+1:])
		w := Clause{Kind: "witness", Name: name, Text: body, Expr: parseExprAt(body, path, l.line), File: path, Line: l.line}
		if call != nil {
			call.Witness = append(call.Witness, w)
		} else {
			fc.Witness = append(fc.Witness, w)
		}
	case "assert":
		if call == nil {
			fatalf("%s:%d: assert is only allowed in a call section", path, l.line)
		}
		call.Asserts = append(call.Asserts, mk("assert"))
	case "set":
		if call == nil {
			fatalf("%s:%d: set is only allowed in a call section", path, l.line)
		}
		k := strings.Index(rest, "=")
		name := strings.TrimSpace(rest[:k])
		body := strings.TrimSpace(rest[k+1:])
		call.Set = append(call.Set, Clause{Kind: "set", Name: name, Text: body, Expr: parseExprAt(body, path, l.line), File: path, Line: l.line})
	case "after":
		if call == nil {
			fatalf("%s:%d: after is only allowed in a call section", path, l.line)
		}
		r2 := strings.TrimSpace(strings.TrimPrefix(rest, "lemma"))
		for _, part := range splitTop(r2, ';') {
			if part != "" {
				call.After = append(call.After, parseLemmaCall(part, path, l.line))
			}
		}
	case "role":
		fc.Roles = append(fc.Roles, splitTop(rest, ',')...)
	case "holds":
		fc.Holds = append(fc.Holds, splitTop(rest, ',')...)
	case "acquires":
		fc.Acquires = append(fc.Acquires, splitTop(rest, ',')...)
	case "anchor":
		fc.Anchor = rest
	default:
		fatalf("%s:%d: unknown clause %q", path, l.line, kw)
	}
}

func (cs *Contracts) parseBlock(b []cline, path, pkgPath string) {
	head := b[0]
	kw := firstWord(head.text)
	rest := strings.TrimSpace(head.text[len(kw):])
	switch kw {
	case "func":
		recv, name, params, results := parseSig(rest, path, head.line)
		fc := &FuncContract{PkgPath: pkgPath, Params: params, Results: results, Recv: recv, File: path, Line: head.line}
		fc.Key = funcKey(recv, name)
		cs.parseFuncClauses(fc, b[1:], path)
		k := pkgPath + "::" + fc.Key
		if cs.Funcs[k] != nil {
			fatalf("%s:%d: duplicate contract for %s", path, head.line, k)
		}
		cs.Funcs[k] = fc
	case "extern":
		// extern (r *bufio.Reader) ReadBytes(delim byte) (line []byte, err error)
		// extern bufio.NewReader(rd io.Reader) (r *bufio.Reader)
		// An assumed contract of a function outside the module (trusted base).
		recv, name, params, results := parseSig(rest, path, head.line)
		fc := &FuncContract{PkgPath: pkgPath, Params: params, Results: results, Recv: recv, File: path, Line: head.line, Trusted: true, Extern: true}
		full := name
		if recv != nil {
			t := strings.TrimSpace(recv.Type)
			ptr := strings.HasPrefix(t, "*")
			t = strings.TrimPrefix(t, "*")
			dot := strings.LastIndex(t, ".")
			if dot < 0 {
				fatalf("%s:%d: extern receiver must be package-qualified", path, head.line)
			}
			if ptr {
				full = t[:dot] + ".(*" + t[dot+1:] + ")." + name
			} else {
				full = t[:dot] + ".(" + t[dot+1:] + ")." + name
			}
		}
		fc.Key = "extern " + full
		cs.parseFuncClauses(fc, b[1:], path)
		cs.Externs[full] = fc
	case "closure":
		// closure (*T).M#Label (params) (results)
		h := strings.Index(rest, "#")
		sp := strings.Index(rest[h:], " ")
		if h < 0 {
			fatalf("%s:%d: closure needs Parent#Label", path, head.line)
		}
		parent := strings.TrimSpace(rest[:h])
		var label, sig string
		if sp < 0 {
			label = rest[h+1:]
			sig = "()"
		} else {
			label = rest[h+1 : h+sp]
			sig = strings.TrimSpace(rest[h+sp:])
		}
		_, _, params, results := parseSig("f"+sig, path, head.line)
		fc := &FuncContract{PkgPath: pkgPath, Params: params, Results: results, File: path, Line: head.line,
			IsClosure: true, Parent: parent, Label: label}
		fc.Key = parent + "#" + label
		cs.parseFuncClauses(fc, b[1:], path)
		cs.Funcs[pkgPath+"::"+fc.Key] = fc
	case "spec":
		sf := &SpecFn{PkgPath: pkgPath, File: path, Line: head.line, Unfolds: map[string]*Lemma{}}
		if strings.HasPrefix(rest, "rec ") {
			rest = strings.TrimSpace(rest[4:])
		}
		if strings.HasPrefix(rest, "opaque ") {
			rest = strings.TrimSpace(rest[7:])
			sf.Opaque = true
		}
		// merge continuation lines that are not unfold/reads
		var tail []cline
		for _, l := range b[1:] {
			w := firstWord(l.text)
			if w == "unfold" || w == "reads" || len(tail) > 0 {
				tail = append(tail, l)
			} else {
				rest += " " + l.text
			}
		}
		sig := rest
		var body string
		if k := topLevelEq(rest); k >= 0 {
			sig = strings.TrimSpace(rest[:k])
			body = strings.TrimSpace(rest[k+1:])
		}
		_, name, params, results := parseSig(sig, path, head.line)
		sf.Name, sf.Params = name, params
		if len(results) > 0 {
			sf.Res = results[0].Type
			if strings.HasSuffix(sf.Res, " heap") {
				sf.Res = strings.TrimSpace(strings.TrimSuffix(sf.Res, " heap"))
				sf.Heap = true
			}
		}
		if body != "" {
			sf.Body = parseExprAt(body, path, head.line)
		}
		var stail []cline
		for _, l := range tail {
			w := firstWord(l.text)
			if w == "unfold" || w == "reads" || len(stail) == 0 {
				stail = append(stail, l)
			} else {
				stail[len(stail)-1].text += " " + l.text
			}
		}
		for _, l := range stail {
			w := firstWord(l.text)
			r := strings.TrimSpace(l.text[len(w):])
			switch w {
			case "reads":
				sf.Reads = append(sf.Reads, splitTop(r, ',')...)
			case "unfold":
				lm := parseLemmaDecl(r, path, l.line)
				lm.Trusted = true
				lm.PkgPath = pkgPath
				sf.Unfolds[lm.Name] = lm
				if cs.Lemmas[lm.Name] != nil {
					fatalf("%s:%d: duplicate lemma %s", path, l.line, lm.Name)
				}
				cs.Lemmas[lm.Name] = lm
			}
		}
		if cs.Specs[name] != nil {
			fatalf("%s:%d: duplicate spec %s", path, head.line, name)
		}
		cs.Specs[name] = sf
	case "lemma", "axiom":
		text := rest
		var hints []Clause
		var reveal []string
		for _, l := range b[1:] {
			if firstWord(l.text) == "reveal" {
				reveal = append(reveal, splitTop(strings.TrimSpace(l.text[len("reveal"):]), ',')...)
				continue
			}
			if firstWord(l.text) == "hint" {
				for _, part := range splitTop(strings.TrimSpace(l.text[4:]), ';') {
					if part != "" {
						hints = append(hints, parseLemmaCall(part, path, l.line))
					}
				}
				continue
			}
			text += " " + l.text
		}
		tags, _, body := parseTagged(text)
		lm := parseLemmaDecl(body, path, head.line)
		lm.Tags = tags
		lm.Hints = hints
		lm.Reveal = reveal
		lm.PkgPath = pkgPath
		lm.Trusted = kw == "axiom"
		if cs.Lemmas[lm.Name] != nil {
			fatalf("%s:%d: duplicate lemma %s", path, head.line, lm.Name)
		}
		cs.Lemmas[lm.Name] = lm
	case "interface":
		f := strings.Fields(rest)
		ic := &IfaceContract{PkgPath: pkgPath, Name: f[0], Methods: map[string]*FuncContract{}}
		if len(f) > 1 && f[1] == "assumed" {
			ic.Assumed = true
		}
		var cur *FuncContract
		var buf []cline
		flush := func() {
			if cur != nil {
				cs.parseFuncClauses(cur, buf, path)
				ic.Methods[cur.Key] = cur
			}
			buf = nil
		}
		for _, l := range b[1:] {
			if firstWord(l.text) == "implementations" {
				ic.Impls = append(ic.Impls, splitTop(strings.TrimSpace(l.text[len("implementations"):]), ',')...)
				continue
			}
			if firstWord(l.text) == "method" {
				flush()
				sig := strings.TrimSpace(l.text[len("method"):])
				sig = strings.TrimSuffix(strings.TrimSpace(sig), ":")
				_, name, params, results := parseSig(sig, path, l.line)
				cur = &FuncContract{PkgPath: pkgPath, Key: name, Params: params, Results: results,
					Recv: &Param{Name: "self", Type: ic.Name}, File: path, Line: l.line, Trusted: ic.Assumed}
			} else {
				buf = append(buf, l)
			}
		}
		flush()
		if dot := strings.LastIndex(ic.Name, "."); dot >= 0 {
			// an interface declared outside the module (net.Conn): keyed by its own package
			cs.Ifaces[ic.Name[:dot]+"::"+ic.Name[dot+1:]] = ic
		} else {
			cs.Ifaces[pkgPath+"::"+ic.Name] = ic
		}
	case "field":
		// field T.f: mode(args)
		text := rest
		for _, l := range b[1:] {
			text += " " + l.text
		}
		tags, _, text := parseTagged(text)
		k := strings.Index(text, ":")
		tf := strings.TrimSpace(text[:k])
		mode := strings.TrimSpace(text[k+1:])
		dot := strings.LastIndex(tf, ".")
		fd := &FieldDecl{PkgPath: pkgPath, Type: tf[:dot], Field: tf[dot+1:], Tags: tags, File: path, Line: head.line}
		if p := strings.Index(mode, "("); p >= 0 {
			fd.Mode = strings.TrimSpace(mode[:p])
			fd.Args = splitTop(mode[p+1:matchParen(mode, p)], ',')
		} else {
			fd.Mode = mode
		}
		if fd.Mode == "monitor" {
			// monitor(lock, invariant): the invariant may contain commas
			inner := mode[strings.Index(mode, "(")+1 : matchParen(mode, strings.Index(mode, "("))]
			c := strings.Index(inner, ",")
			fd.Args = []string{strings.TrimSpace(inner[:c])}
			fd.InvText = strings.TrimSpace(inner[c+1:])
			fd.Inv = parseExprAt(fd.InvText, path, head.line)
		}
		cs.Fields = append(cs.Fields, fd)
	case "chan":
		text := rest
		for _, l := range b[1:] {
			text += " " + l.text
		}
		tags, _, text := parseTagged(text)
		k := strings.Index(text, ":")
		tf := strings.TrimSpace(text[:k])
		dot := strings.LastIndex(tf, ".")
		cd := &ChanDecl{PkgPath: pkgPath, Type: tf[:dot], Field: tf[dot+1:], Tags: tags}
		body := text[k+1:]
		grab := func(key string) []string {
			i := strings.Index(body, key)
			if i < 0 {
				return nil
			}
			o := strings.Index(body[i:], "{")
			c := strings.Index(body[i:], "}")
			return splitTop(body[i+o+1:i+c], ',')
		}
		cd.Senders, cd.Receivers, cd.Closers = grab("senders"), grab("receivers"), grab("closers")
		cs.Chans = append(cs.Chans, cd)
	case "global":
		tags, _, body := parseTagged(rest)
		k := strings.Index(body, "=")
		name := strings.TrimSpace(body[:k])
		ex := strings.TrimSpace(body[k+1:])
		cs.Globals[pkgPath+"."+name] = &GlobalDecl{PkgPath: pkgPath, Name: name, Expr: parseExprAt(ex, path, head.line), Text: ex, Tags: tags}
	case "ghostfield":
		f := strings.Fields(rest)
		cs.GhostFields[f[0]] = f[1]
	case "callguard":
		tags, _, body := parseTagged(rest)
		k := strings.Index(body, ":")
		path3 := strings.Split(strings.TrimSpace(body[:k]), ".")
		if len(path3) != 3 {
			fatalf("%s:%d: callguard expects Type.field.Method: lock", path, head.line)
		}
		cs.Fields = append(cs.Fields, &FieldDecl{PkgPath: pkgPath, Type: path3[0], Field: path3[1], Mode: "callguard:" + path3[2], Args: []string{strings.TrimSpace(body[k+1:])}, Tags: tags, File: path, Line: head.line})
	case "chanlog":
		f := strings.Fields(rest)
		dot := strings.LastIndex(f[0], ".")
		cl := &ChanLog{PkgPath: pkgPath, Type: f[0][:dot], Field: f[0][dot+1:], N: f[1], At: f[2]}
		if len(f) > 3 {
			cl.Recv = f[3]
		}
		cs.ChanLogs = append(cs.ChanLogs, cl)
	case "group":
		// group C05,C06,...: the properties listed share this package's state (each handler's
		// transitions are assumptions of the others): a clause of a function of this package
		// tagged with one of them is an obligation of all of them
		for _, t := range splitTop(rest, ',') {
			if t != "" {
				cs.Groups[pkgPath] = append(cs.Groups[pkgPath], t)
			}
		}
	case "bounded":
		// bounded[tags] name: what it stands in for
		tags, _, body := parseTagged(rest)
		for _, l := range b[1:] {
			body += " " + l.text
		}
		name, what := body, ""
		if k := strings.Index(body, ":"); k >= 0 {
			name, what = strings.TrimSpace(body[:k]), strings.TrimSpace(body[k+1:])
		}
		// name [@dir]: the harness runs in the package of the declaring file unless a
		// module-relative directory is given
		pp := pkgPath
		if f := strings.Fields(name); len(f) == 2 && strings.HasPrefix(f[1], "@") {
			name = f[0]
			pp = modPathConst + "/" + strings.TrimPrefix(f[1], "@")
		}
		cs.Bounded = append(cs.Bounded, BoundedDecl{Name: strings.TrimSpace(name), PkgPath: pp, Tags: tags, What: what})
	case "rule":
		// rule[tags] name   or   rule[tags] name: pkg-relative function keys, ...
		tags, _, body := parseTagged(rest)
		for _, l := range b[1:] {
			body += " " + l.text
		}
		name := strings.TrimSpace(body)
		if k := strings.Index(body, ":"); k >= 0 {
			name = strings.TrimSpace(body[:k])
			for _, a := range splitTop(body[k+1:], ',') {
				if a != "" {
					cs.RuleArgs[name] = append(cs.RuleArgs[name], pkgPath+"::"+a)
				}
			}
		}
		cs.Rules[name] = append(cs.Rules[name], tags...)
	case "unscoped":
		tags, _, body := parseTagged(rest)
		for _, k := range splitTop(body, ',') {
			if k != "" {
				cs.Unscoped[pkgPath+"::"+k] = tags
			}
		}
	case "ghost":
		f := strings.Fields(rest)
		g := &GhostDecl{Name: f[0], Type: f[1]}
		if len(f) > 2 && f[2] == "monotone" {
			g.Monotone = true
		}
		cs.Ghosts[g.Name] = g
	}
}

func topLevelEq(s string) int {
	d := 0
	for i := 0; i < len(s); i++ {
		switch s[i] {
		case '(', '[':
			d++
		case ')', ']':
			d--
		case '=':
			if d == 0 && (i+1 >= len(s) || s[i+1] != '=') && (i == 0 || (s[i-1] != '=' && s[i-1] != '!' && s[i-1] != '<' && s[i-1] != '>')) {
				return i
			}
		}
	}
	return -1
}

// parseLemmaDecl parses "name(params): [requires e] [ensures] e".
func parseLemmaDecl(s, path string, line int) *Lemma {
	i := strings.Index(s, "(")
	end := matchParen(s, i)
	lm := &Lemma{Name: strings.TrimSpace(s[:i]), Params: parseParams(s[i+1 : end]), File: path, Line: line}
	rest := strings.TrimSpace(s[end+1:])
	rest = strings.TrimPrefix(rest, ":")
	rest = strings.TrimSpace(rest)
	if strings.HasPrefix(rest, "requires ") {
		rest = rest[len("requires "):]
		k := strings.Index(rest, " ensures ")
		if k < 0 {
			fatalf("%s:%d: lemma with requires needs ensures", path, line)
		}
		lm.Requires = parseExprAt(strings.TrimSpace(rest[:k]), path, line)
		rest = rest[k+len(" ensures "):]
	} else {
		rest = strings.TrimPrefix(rest, "ensures ")
	}
	lm.Ensures = parseExprAt(strings.TrimSpace(rest), path, line)
	return lm
}

func funcKey(recv *Param, name string) string {
	if recv == nil {
		return name
	}
	t := strings.TrimSpace(recv.Type)
	return "(" + t + ")." + name
}

// LoadContracts reads every zz_verif_contracts*.go below root. lockDir (may be "") holds
// the committed copies of the contract files, laid out like root: a contract file that is
// missing from root or differs from its locked copy is read from the lock instead, so that
// a deleted or weakened contract cannot make a check pass; LockNotes says when that happens.
func LoadContracts(root string, modPath string, lockDir string) *Contracts {
	cs := newContracts()
	find := func(dir string) []string {
		var files []string
		_ = filepath.Walk(dir, func(p string, info os.FileInfo, err error) error {
			if err != nil {
				return nil
			}
			if info.IsDir() && (info.Name() == ".git" || info.Name() == "vendor") {
				return filepath.SkipDir
			}
			if !info.IsDir() && strings.HasPrefix(info.Name(), "zz_verif_contracts") && strings.HasSuffix(info.Name(), ".go") {
				r, _ := filepath.Rel(dir, p)
				files = append(files, r)
			}
			return nil
		})
		return files
	}
	src := map[string]string{} // relative name -> file to read
	for _, r := range find(root) {
		src[r] = filepath.Join(root, r)
	}
	if lockDir != "" {
		if st, err := os.Stat(lockDir); err == nil && st.IsDir() {
			locked := find(lockDir)
			for _, r := range locked {
				lp := filepath.Join(lockDir, r)
				ld, _ := os.ReadFile(lp)
				rd, err := os.ReadFile(filepath.Join(root, r))
				switch {
				case err != nil:
					cs.LockNotes = append(cs.LockNotes, "contract file "+r+" is missing from the repository; the locked copy "+lp+" is used")
					src[r] = lp
				case string(rd) != string(ld):
					cs.LockNotes = append(cs.LockNotes, "contract file "+r+" differs from its locked copy; the locked copy "+lp+" is used (run tools/lockcontracts.sh after an intended contract change)")
					src[r] = lp
				}
			}
			cs.Locked = len(locked)
		}
	}
	var rels []string
	for r := range src {
		rels = append(rels, r)
	}
	sort.Strings(rels)
	for _, r := range rels {
		rel := filepath.Dir(r)
		pkg := modPath
		if rel != "." {
			pkg = modPath + "/" + filepath.ToSlash(rel)
		}
		cs.LoadFileAs(src[r], filepath.Join(root, r), pkg)
	}
	return cs
}

var _ = token.NoPos
