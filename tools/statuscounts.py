#!/usr/bin/env python3
# tools/statuscounts.py: refresh the obligation counts of the status table in DESIGN.md 12.2
# from the evidence files written by the last run of every check (tools/runall.sh first).
import json, re
s = open('/verif/DESIGN.md').read()
def count(pid):
    try:
        e = json.load(open('/verif/evidence/%s.json' % pid))
    except Exception:
        return None
    c = e.get('coverage', {})
    for k in ('obligations_total', 'obligations', 'total_obligations'):
        if isinstance(c.get(k), int):
            return c[k]
    return None
out = []
for line in s.split('\n'):
    m = re.match(r'^\| (C\d\d) \| ([^|]*) \| (\d+) \| ', line)
    if m:
        n = count(m.group(1))
        if n is not None:
            line = line.replace('| %s | %s | %s | ' % (m.group(1), m.group(2), m.group(3)), '| %s | %s | %d | ' % (m.group(1), m.group(2), n), 1)
    out.append(line)
open('/verif/DESIGN.md', 'w').write('\n'.join(out))
