#!/bin/bash
# tools/confirmseed.sh <seed-dir> <prop> <name>: confirm a sub-agent's seeded change on scratch copies
# (compiles, existing tests pass, demo fails with / passes without), run our checks, and store it under /verif/seeded/<name>/
set -u
export GOFLAGS=-mod=mod GOPROXY=off GOSUMDB=off GOTOOLCHAIN=local
sd=$1; prop=$2; name=$3
out=/verif/seeded/$name; mkdir -p $out
pkg=$(grep -m1 '^package ' $sd/demo_test.go | awk '{print $2}')
case "$pkg" in
  fix|fix_test) dir=fix;; encoding|encoding_test) dir=fix/encoding;; session_test) dir=session;; utils_test) dir=utils;; memory_test) dir=storages/memory;; simplefixgo|simplefixgo_test) dir=.;; session) dir=session;; memory) dir=storages/memory;; utils) dir=utils;; tests) dir=tests;; *) dir=fix;;
esac
tmp=$(mktemp -d /tmp/govc-confirm-XXXXXX)
rsync -a --exclude .git /repo/ $tmp/with/; rsync -a --exclude .git /repo/ $tmp/without/
( cd $tmp/with && patch -p1 -s --forward < $sd/patch.diff ) || { echo "$name: PATCH FAILS"; rm -rf $tmp; exit 1; }
cp $sd/demo_test.go $tmp/with/$dir/zz_seed_demo_test.go; cp $sd/demo_test.go $tmp/without/$dir/zz_seed_demo_test.go
build=$(cd $tmp/with && go build ./... 2>&1 | tail -3)
# existing suite with the change (without the demo file)
mv $tmp/with/$dir/zz_seed_demo_test.go $tmp/demo.go
suite=$(cd $tmp/with && go test -vet=off -count=1 ./fix/... ./session/... ./utils/... ./storages/... . ./tests/... 2>&1 | grep -v "no test files" | tail -8)
suite_ok=$(echo "$suite" | grep -c "^FAIL\|^--- FAIL\|panic:")
cp $tmp/demo.go $tmp/with/$dir/zz_seed_demo_test.go
# only the demonstration's own tests: the tests package has a helper that panics when the binary runs longer than 10 s
race=""; grep -q -- "-race" $sd/demo_test.go && race="-race"
names=$(grep -o '^func Test[A-Za-z0-9_]*' $sd/demo_test.go | sed 's/^func //' | paste -sd'|')
dw=$(cd $tmp/with && go test $race -vet=off -count=1 -timeout 300s -run "^($names)\$" ./$dir 2>&1 | tail -5)
dwo=$(cd $tmp/without && go test $race -vet=off -count=1 -timeout 300s -run "^($names)\$" ./$dir 2>&1 | tail -3)
with_fail=$(echo "$dw" | grep -c "^FAIL\|^--- FAIL\|panic:\|DATA RACE")
without_ok=$(echo "$dwo" | grep -c "^ok")
cd /verif
chk=$(tools/tryseed.sh $sd/patch.diff $prop 2>&1)
det=$(echo "$chk" | grep -c "^VIOLATION")
cp $sd/patch.diff $out/patch.diff; cp $sd/demo_test.go $out/demo_test.go; [ -f $sd/notes.md ] && cp $sd/notes.md $out/notes.md
python3 - "$out" "$prop" "$name" "$dir" "$build" "$suite_ok" "$with_fail" "$without_ok" "$det" <<PY
import json,sys
out,prop,name,d,build,suite_bad,wf,wo,det=sys.argv[1:10]
chk=open('/dev/stdin').read() if False else ""
meta={"property":prop,"name":name,"demo_package_dir":d,
 "needs_to_manifest":"see notes.md (written by the sub-agent that produced the change)",
 "confirmed":{"compiles": build.strip()=="" , "existing_suite_passes_with_change": suite_bad=="0",
              "demo_fails_with_change": wf!="0", "demo_passes_without_change": wo!="0"},
 "what_was_run":["go build ./... on a scratch copy with patch.diff applied",
   "go test -vet=off -count=1 ./fix/... ./session/... ./utils/... ./storages/... . ./tests/... with the change",
   "go test ./%s with demo_test.go copied in, with and without the change"%d,
   "tools/tryseed.sh patch.diff %s (our check against a scratch copy with the change)"%prop],
 "detected_by_check": det!="0"}
json.dump(meta,open(out+"/meta.json","w"),indent=1)
print(name, json.dumps(meta["confirmed"]), "detected=",det!="0")
PY
echo "$chk" | grep " failed: " | cut -c1-200 | head -4 > $out/detection.txt
rm -rf $tmp
