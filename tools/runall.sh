#!/bin/bash
# runs every claimed check (quick tier) in parallel; prints one line per property
cd /verif
props=$(python3 -c "import json; print(' '.join(c['property_id'] for c in json.load(open('MANIFEST.json'))['checks']))")
[ $# -gt 0 ] && props="$@"
for p in $props; do ( ./check $p > /tmp/runall-$p.log 2>&1; echo "$p exit=$? $(tail -1 /tmp/runall-$p.log)" ) & done; wait
