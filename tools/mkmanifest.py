#!/usr/bin/env python3
"""Regenerates /verif/MANIFEST.json from the table below (single source of truth)."""
import json, subprocess
TECH = "contract-based deductive verification: weakest-precondition VCs generated over go/ssa of /repo from //@ contracts, discharged by z3 4.8.12 / z3 5.1.0 / cvc5 1.0.3"
COMMON = "Trusted: go/ssa as the program text, memory model of DESIGN.md 3.3 (immutable byte strings, per-field heap arrays, heap-version frame rule with declared ownership), Go ints mathematical, slice capacity = length, stdlib models of DESIGN.md 8.5, solver answers. "
CLAIMS = {
 "C01": ("Post-conditions of Message.Prepare (layout with named witnesses, BodyLength = |MsgType field + tail + SOH|, CheckSum = digits3(sum of all bytes before the CheckSum field mod 256)), BytesWithoutChecksum, CalcBodyLength and CalcCheckSum (loop invariant over the byte sum, %03s padding lemma), proved for arbitrary tags, arbitrary header/body images and arbitrary lengths; KeyValue/Items/Component/Group ToBytes against a recursive wire specification.",
         COMMON + "Preconditions: header non-nil, BeginString/MsgType populated, framing KeyValues distinct (established by NewMessage); bodyLength/checkSum KeyValues owned by the message (escape through Items() assumed benign). bsum_cat/bsum_snoc/join_snoc are trusted string schemata.", "DESIGN.md 9 C01"),
 "C02": ("(a) value codecs: every FromBytes satisfies a per-type decoding post (fbPost) and the text round trips atoi(dec n)=n, ParseUint, Y/N are proved as lemmas; Float keeps its source bytes, so re-serialization is byte-exact; (b) KeyValue.AsTemplate returns a fresh, null value of the same dynamic type, scanKeyValue hands FromBytes exactly the value of the first anchored occurrence of tag=. (c) the composed inverse parse(serialize m) = m over nested templates is NOT proved (it needs an inductive fact about substring search that no installed solver derives, DESIGN.md 2.3).",
         COMMON + "ParseFloat(FormatFloat v)=v and time Parse(Format t)=t are trusted axioms; Group/Component.AsTemplate contracts trusted; composition over templates not decided (bounded stand-in planned, never counted as proved).", "DESIGN.md 9 C02"),
 "C03": ("validateRaw returns nil only if the bytes decompose exactly as BeginString SOH BodyLength SOH R CheckSum SOH with atoi(BodyLength) = |R| and CheckSum = digits3(byte sum before the CheckSum field mod 256); DefaultUnmarshaller.Unmarshal and encoding.Unmarshal succeed only if validateRaw accepted the same bytes. Both strict modes (strict is a free Boolean).",
         COMMON + "The closing step 'a framed string at edit distance one from a framed string is not framed' is arithmetic on strings, independent of the code, and is trusted (not machine-proved). Framing tags are distinct digit strings (assumed builder contract).", "DESIGN.md 9 C03"),
 "C11": ("Panic-freedom and termination obligations (every index, slice, nil dereference, unchecked type assertion, interface call, loop variant) generated automatically from go/ssa for ValueByTag, scanKeyValue, splitGroup, state.unmarshal, unmarshalItems, validateRaw and CalcCheckSum, discharged for all byte strings and all well-formed templates.",
         COMMON + "Template well-formedness (non-nil values) is a precondition; Group.AsTemplate contract trusted; recursion of unmarshal is partial-correctness only (loops have variants).", "DESIGN.md 9 C11"),
 "C17": ("Every ToBytes (seven value types against wireV, KeyValue, Items, Component, Group) equals a recursive wire specification: one field per populated leaf, own tag, canonical text, template order, count field before each group; constructors and Set populate the value; BytesWithoutChecksum emits header then body after the three framing fields.",
         COMMON + "Two recorded findings (known_findings.json): all-null group entry emits an empty field; trailer is never serialized. strconv/time formatting functions are uninterpreted (canonical text = what the standard library prints).", "DESIGN.md 9 C17"),
 "C18": ("Anchoring post-conditions at lookup sites: a returned value starts right after an occurrence of tag= that is at offset 0 or directly after SOH; proved for all byte strings and tags.",
         COMMON + "Sites: fix.ValueByTag (returned value starts after an anchored tag=), scanKeyValue (value handed to FromBytes is valueAt(firstAnchored)), start of group parsing in state.unmarshal (anchored count tag). splitGroup split points and Conn.runReader end-of-message detection are not yet under a C18 clause.", "DESIGN.md 9 C18"),
}
NA = {
 "C13": "liveness / goroutine reclamation over channel interleavings: not expressible as per-function contracts with sequential VCs (DESIGN.md section 11)",
}
PENDING = "not yet brought within the verifier's reach in this build (contracts planned in DESIGN.md section 9; claimed once its obligations discharge reproducibly)"
ALL = ["C%02d" % i for i in range(1, 21)]
def chk(pid):
    text, note, ref = CLAIMS[pid]
    return {"property_id": pid, "quick_cmd": "./check %s" % pid, "thorough_cmd": "./check %s --tier thorough" % pid,
            "evidence_file": "/verif/evidence/%s.json" % pid, "replay_cmd_template": "./check {id} --replay {path}", "engine": "govc",
            "level_claimed": {"category": "proof", "text": text, "design_ref": ref}, "level_note": note, "technique": TECH}
hooks = subprocess.run(["git", "-C", "/repo", "log", "--format=%h %s"], capture_output=True, text=True).stdout.splitlines()
src = [l.split()[0] for l in hooks if l.split(" ", 1)[1].startswith("verif:")]
m = {
 "version": 1,
 "setup_cmd": "cd /verif/engine && GOFLAGS=-mod=vendor GOPROXY=off GOSUMDB=off GOTOOLCHAIN=local go build -o /verif/bin/govc .",
 "hooks": {"guard": "verif", "enable": "govc loads /repo with -tags=verif; the hook files (zz_verif_contracts.go) are comment-only, so the tag changes no executable code",
           "baseline_off_cmd": "cd /repo && GOFLAGS=-mod=mod GOPROXY=off GOSUMDB=off go test -vet=off -count=1 -timeout 25m ./...",
           "source_commits": src, "add_only": True},
 "engines": [{"name": "govc", "path": "/verif/engine", "serves_properties": sorted(CLAIMS),
              "kind_free_text": "contract-based deductive verifier: VC generation over go/ssa of /repo's working tree, contracts in //@ comments behind build tag verif, z3 4.8.12 / z3 5.1.0 / cvc5 1.0.3 portfolio, counterexample replay through go test -overlay"}],
 "checks": [chk(p) for p in sorted(CLAIMS)],
 "not_applicable": [{"property_id": p, "reason": NA.get(p, PENDING)} for p in ALL if p not in CLAIMS],
 "notes": "See DESIGN.md. known_findings.json lists recorded and fixed defects; selftest/run.sh runs the must-fail mutant corpus.",
}
json.dump(m, open("/verif/MANIFEST.json", "w"), indent=1)
print("claimed:", sorted(CLAIMS))
