#!/bin/bash
# mk.sh name file old new
export GOFLAGS=-mod=mod GOPROXY=off GOSUMDB=off GOTOOLCHAIN=local
name=$1; f=$2
mkdir -p /tmp/mut; rm -rf /tmp/mut/w; rsync -a --exclude .git /repo/ /tmp/mut/w/
python3 - "/tmp/mut/w/$f" "$3" "$4" <<'E'
import sys
f,a,b=sys.argv[1:4]
s=open(f).read()
assert s.count(a)==1,(a,s.count(a))
open(f,'w').write(s.replace(a,b))
E
[ $? = 0 ] || { echo "$name: pattern failed"; exit 1; }
(cd /tmp/mut/w && go build ./... ) || { echo "$name: BUILD FAILS"; }
(cd /tmp/mut && diff -u /repo/$f w/$f | sed "s#^--- /repo/#--- a/#; s#^+++ w/#+++ b/#" > /verif/selftest/mutants/$name.patch)
rm -rf /tmp/mut/w
echo "$name ok"
