#!/bin/bash
# tools/reseed_one.sh <seeded/NAME/>: re-run our check against one stored seeded change and
# refresh its meta.json / detection.txt (used to run tools/reseed.sh's work in parallel:
#   ls -d seeded/*/ | xargs -P 5 -n 1 tools/reseed_one.sh)
cd /verif
d=$1
prop=$(python3 -c "import json;print(json.load(open('$d/meta.json'))['property'])")
chk=$(tools/tryseed.sh /verif/$d/patch.diff $prop 2>&1)
det=$(echo "$chk" | grep -c "^VIOLATION")
if echo "$chk" | grep -q "PATCH DOES NOT APPLY"; then echo "$d STALE (patch no longer applies: re-create it against the current tree)"; exit 0; fi
echo "$chk" | grep " failed: \|no longer binds" | cut -c1-200 | head -4 > $d/detection.txt
python3 - "$d" "$det" <<PY
import json,sys
d,det=sys.argv[1:3]
m=json.load(open(d+'/meta.json')); m['detected_by_check']= det!="0"; json.dump(m,open(d+'/meta.json','w'),indent=1)
print(d, m['detected_by_check'])
PY
