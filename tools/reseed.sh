#!/bin/bash
# re-runs our checks against every stored seeded change and refreshes meta.json / detection.txt
cd /verif
for d in seeded/*/; do
  name=$(basename $d); prop=$(python3 -c "import json;print(json.load(open('$d/meta.json'))['property'])")
  chk=$(tools/tryseed.sh /verif/$d/patch.diff $prop 2>&1)
  det=$(echo "$chk" | grep -c "^VIOLATION")
  if echo "$chk" | grep -q "PATCH DOES NOT APPLY"; then echo "$d STALE (patch no longer applies: re-create it against the current tree)"; continue; fi
  echo "$chk" | grep " failed: \|no longer binds" | cut -c1-200 | head -4 > $d/detection.txt
  python3 - "$d" "$det" <<PY
import json,sys
d,det=sys.argv[1:3]
m=json.load(open(d+'/meta.json')); m['detected_by_check']= det!="0"; json.dump(m,open(d+'/meta.json','w'),indent=1)
print(d, m['detected_by_check'])
PY
done
