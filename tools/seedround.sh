#!/bin/bash
# tools/seedround.sh <round-suffix> <hint-text-file> <prop>...
# Prepares, for each property, a scratch worktree /tmp/wt-<prop>-<round> of /repo (contract files
# hidden) and a prompt file /tmp/agent_prompt_<prop>-<round>.txt for an independent sub-agent.
set -eu
r=$1; hintfile=$2; shift 2
for p in "$@"; do
  d=/tmp/wt-$p-$r
  git -C /repo worktree add -q --detach $d HEAD
  (cd $d && for f in $(git ls-files '*zz_verif_contracts.go'); do git update-index --skip-worktree $f; rm -f $f; done)
done
python3 - "$r" "$hintfile" "$@" <<'PY'
import json,glob,os,sys
r,hintfile=sys.argv[1:3]; props=sys.argv[3:]
P={}
for l in open('/verif/properties.jsonl'):
    p=json.loads(l); P[p['id']]=p
t=open('/verif/tools/prompts/seed_change.txt').read()
hint0=open(hintfile).read().strip()
for pid in props:
    titles=[]
    for d in sorted(glob.glob('/verif/seeded/%s-*/'%pid)):
        n=d+'notes.md'
        if os.path.exists(n):
            for l in open(n):
                l=l.strip()
                if l.startswith('#'):
                    titles.append(l.lstrip('# ').strip()); break
    hint=hint0+"\nEarlier rounds already produced these changes for this property (do something different in kind):\n"+"\n".join("  - "+x for x in titles)
    wt='/tmp/wt-%s-%s'%(pid,r)
    open('/tmp/agent_prompt_%s-%s.txt'%(pid,r),'w').write(t.replace('{WT}',wt).replace('{PROP}',json.dumps(P[pid],indent=1)).replace('{HINT}',hint))
print("prepared", len(props))
PY
