#!/usr/bin/env python3
"""Prints the markdown table of seeded changes (DESIGN.md section 12.5) from /verif/seeded/*."""
import json, os, re, glob
rows = []
for d in sorted(glob.glob('/verif/seeded/*/')):
    name = os.path.basename(d.rstrip('/'))
    if not os.path.exists(d + "meta.json"):
        continue
    m = json.load(open(d + "meta.json"))
    det = open(d + 'detection.txt').read().strip().splitlines() if os.path.exists(d + 'detection.txt') else []
    first = ''
    if det:
        first = det[0]
        first = re.sub(r'^govc: (obligation )?', '', first)
        first = first.split(' failed')[0].split(' no longer')[0]
    title = ''
    if os.path.exists(d + 'notes.md'):
        for l in open(d + 'notes.md'):
            l = l.strip()
            if l.startswith('#'):
                title = l.lstrip('# ').strip()
                break
            if l and not title:
                title = l
                break
    files = sorted(set(re.findall(r'^\+\+\+ b/(\S+)', open(d + 'patch.diff').read(), re.M)))
    c = m.get('confirmed', {})
    ok = all(c.get(k) for k in ('compiles', 'existing_suite_passes_with_change', 'demo_fails_with_change', 'demo_passes_without_change'))
    rows.append((name, m['property'], ', '.join(files), title[:110], 'yes' if ok else 'NO', 'yes' if m.get('detected_by_check') else 'NO', first[:90]))
import sys
out = []
_print = print
def print(x):
    out.append(x)
print('| seed | property | files changed | what the change does (sub-agent\'s title) | confirmed | detected | first failing obligation |')
print('|---|---|---|---|---|---|---|')
for r in rows:
    print('| ' + ' | '.join(x.replace('|', '\\|') for x in r) + ' |')

if '--update' in sys.argv:
    p = '/verif/DESIGN.md'
    s = open(p).read()
    a = s.index('<!-- seedtable:begin')
    a = s.index('\n', a) + 1
    b = s.index('<!-- seedtable:end -->')
    s = s[:a] + '\n'.join(out) + '\n' + s[b:]
    open(p, 'w').write(s)
    _print('DESIGN.md updated:', len(out) - 2, 'seeds')
else:
    _print('\n'.join(out))
