#!/bin/bash
# tools/tryseed.sh <patch.diff> <prop> [more props...]: run checks against a scratch copy of /repo with the patch applied
set -u
cd /verif
export GOVC_NO_BATTERY=1 GOFLAGS=-mod=mod GOPROXY=off GOSUMDB=off GOTOOLCHAIN=local
patch=$1; shift
tmp=$(mktemp -d /tmp/govc-seed-XXXXXX)
rsync -a --exclude .git /repo/ "$tmp/repo/"
mkdir -p "$tmp/verif"; cp known_findings.json "$tmp/verif/"
if ! (cd "$tmp/repo" && patch -p1 -s --forward < "$patch" >/dev/null 2>&1); then echo "PATCH DOES NOT APPLY: $patch"; rm -rf "$tmp"; exit 2; fi
(cd "$tmp/repo" && go build ./... ) || echo "BUILD FAILS"
for prop in "$@"; do
  out=$(bin/govc check -prop "$prop" -repo "$tmp/repo" -verif "$tmp/verif" 2>&1)
  n=$(echo "$out" | grep -c "^VIOLATION")
  echo "== $prop: $n violation line(s)"
  echo "$out" | grep "obligation .* failed" | sed 's/govc: obligation //' | cut -c1-220 | head -8
  echo "$out" | grep "^VIOLATION" | head -8 | sed 's/replay=.*replays/replay=...\/replays/'
  echo "$out" | grep "ENGINE ERROR" 
done
rm -rf "$tmp"
