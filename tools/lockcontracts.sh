#!/bin/bash
# tools/lockcontracts.sh: copy the contract files of /repo into /verif/contracts (the locked
# copies the checks compare against). Run after every intended contract change, then commit.
set -eu
cd /repo
rm -rf /verif/contracts; mkdir -p /verif/contracts
find . -name 'zz_verif_contracts*.go' -not -path './.git/*' | while read -r f; do
  mkdir -p "/verif/contracts/$(dirname "$f")"; cp "$f" "/verif/contracts/$f"
done
(cd /verif/contracts && find . -type f | sort | xargs sha256sum) > /verif/contracts.lock
wc -l < /verif/contracts.lock
