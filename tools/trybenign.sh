#!/bin/bash
# tools/trybenign.sh <patch.diff> [props...]: a behaviour-preserving change must raise no alarm.
# Applies the patch to a scratch copy of /repo and runs the quick check of every claimed
# property (or the given ones) against it; prints each alarm.
set -u
cd /verif
export GOVC_NO_BATTERY=1 GOFLAGS=-mod=mod GOPROXY=off GOSUMDB=off GOTOOLCHAIN=local
patch=$1; shift
props="$*"
[ -z "$props" ] && props=$(python3 -c "import json;print(' '.join(c['property_id'] for c in json.load(open('/verif/MANIFEST.json'))['checks']))")
tmp=$(mktemp -d /tmp/govc-benign-XXXXXX)
rsync -a --exclude .git /repo/ "$tmp/repo/"
mkdir -p "$tmp/verif"; cp known_findings.json "$tmp/verif/"
if ! (cd "$tmp/repo" && patch -p1 -s --forward < "$patch" >/dev/null 2>&1); then echo "PATCH DOES NOT APPLY: $patch"; rm -rf "$tmp"; exit 2; fi
(cd "$tmp/repo" && go build ./... ) || echo "BUILD FAILS"
alarms=0
for prop in $props; do
  ( out=$(bin/govc check -prop "$prop" -repo "$tmp/repo" -verif "$tmp/verif" 2>&1)
    if echo "$out" | grep -q "^VIOLATION\|ENGINE ERROR"; then
      echo "ALARM $prop:"; echo "$out" | grep "obligation .* failed\|no longer binds\|ENGINE ERROR" | sed 's/govc: obligation //' | cut -c1-230 | head -4
    fi ) &
  while [ $(jobs -r | wc -l) -ge 6 ]; do sleep 0.3; done
done
wait
rm -rf "$tmp"
