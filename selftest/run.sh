#!/bin/bash
# Must-fail corpus: each mutant is applied to a scratch copy of /repo (outside /repo and
# /verif, removed afterwards) and the property's check must report the named obligation.
# Usage: selftest/run.sh [pattern]   exit 0 = every mutant detected (and the clean ones stayed clean)
set -u
cd "$(dirname "$0")/.."
export GOVC_NO_BATTERY=1 GOFLAGS=-mod=mod GOPROXY=off GOSUMDB=off GOTOOLCHAIN=local
pat="${1:-}"
fail=0; n=0; skipped=0
while IFS=$'\t' read -r patch prop expect clean; do
  case "$patch" in \#*|"") continue;; esac
  [ -n "$pat" ] && [[ "$patch" != *$pat* ]] && continue
  tmp=$(mktemp -d /tmp/govc-mut-XXXXXX)
  rsync -a --exclude .git /repo/ "$tmp/repo/"
  mkdir -p "$tmp/verif"; cp known_findings.json "$tmp/verif/" 2>/dev/null
  if ! (cd "$tmp/repo" && patch -p1 -s --forward < /verif/selftest/mutants/$patch >/dev/null 2>&1); then
    echo "SKIP $patch (does not apply)"; skipped=$((skipped+1)); rm -rf "$tmp"; continue
  fi
  n=$((n+1))
  out=$(bin/govc check -prop "$prop" -repo "$tmp/repo" -verif "$tmp/verif" 2>&1)
  if echo "$out" | grep -q "^VIOLATION property=$prop" && echo "$out" | grep "obligation .* failed" | grep -qF "$expect"; then
    echo "DETECTED $patch ($prop: $(echo "$out" | grep 'obligation .* failed' | grep -F "$expect" | head -1 | sed 's/govc: obligation //;s/ failed.*//'))"
  else
    echo "MISSED $patch ($prop, expected $expect)"; echo "$out" | tail -5; fail=1
  fi
  for c in ${clean//,/ }; do
    o2=$(bin/govc check -prop "$c" -repo "$tmp/repo" -verif "$tmp/verif" 2>&1)
    if echo "$o2" | grep -q "^VIOLATION"; then echo "  SPILL $patch also fails $c"; fi
  done
  rm -rf "$tmp"
done < selftest/mutants/EXPECT.tsv
echo "selftest: $n mutants run, $skipped skipped, fail=$fail"
exit $fail
