#!/bin/bash
# Must-stay-silent corpus: behaviour-preserving edits (renames, loop form changes,
# reordered independent statements, extracted constants, inverted conditions) written by
# independent sub-agents. Each is applied to a scratch copy of /repo and every claimed
# check must pass on it. Usage: selftest/run_benign.sh [pattern]; exit 0 = no alarm.
cd "$(dirname "$0")/.."
pat="${1:-}"
fail=0; n=0
for d in selftest/benign/*.diff; do
  [ -n "$pat" ] && [[ "$d" != *$pat* ]] && continue
  n=$((n+1))
  out=$(tools/trybenign.sh /verif/$d 2>&1)
  if [ -n "$out" ]; then echo "ALARM on benign change $d:"; echo "$out" | head -6; fail=1; else echo "silent $d"; fi
done
echo "benign corpus: $n changes, fail=$fail"
exit $fail
